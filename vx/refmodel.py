"""Reference models, kept boring on purpose.

reference(): the assignment read as ordinary tensor algebra.  The right-hand side is expanded into
signed products by distributing * over + and -; each product is summed over those of its own
indexes that are absent from the target and broadcast along target indexes it lacks.

support(): the same walk over sets (product = intersection/join, sum = union, summation =
projection, literal = everywhere present).
"""

from __future__ import annotations

import itertools
from fractions import Fraction

from .poly import Poly
from .space import literal_value


def terms(tree, sign=1):
    """Expand into a list of (sign, [leaf, ...])."""
    op = tree[0]
    if op == "+":
        return terms(tree[1], sign) + terms(tree[2], sign)
    if op == "-":
        return terms(tree[1], sign) + terms(tree[2], -sign)
    if op == "*":
        return [
            (sign * s1 * s2, f1 + f2) for s1, f1 in terms(tree[1], 1) for s2, f2 in terms(tree[2], 1)
        ]
    return [(sign, [tree])]


def term_indexes(factors):
    idxs = []
    for f in factors:
        if f[0] == "t":
            for i in f[2]:
                if i not in idxs:
                    idxs.append(i)
    return idxs


def reference(prog, env, DIM, zero=None, lift=None):
    """env: name -> dict(dimension-order coordinate -> value).  Returns dict target coord -> value
    for EVERY target coordinate (dense), values in the domain of env (Poly or Fraction)."""
    tname, tgt, tree = prog
    zero = Poly.const(0) if zero is None else zero
    lift = Poly.const if lift is None else lift
    out = {tv: zero for tv in itertools.product(*[range(DIM[i]) for i in tgt])}
    for s, factors in terms(tree):
        idxs = term_indexes(factors)
        summed = [i for i in idxs if i not in tgt]
        lits = lift(Fraction(s))
        for f in factors:
            if f[0] == "n":
                lits = lits * lift(literal_value(f[1]))
        tens = [f for f in factors if f[0] == "t"]
        for tv in out:
            ie = dict(zip(tgt, tv, strict=True))
            tot = zero
            for sv in itertools.product(*[range(DIM[i]) for i in summed]):
                ie.update(zip(summed, sv, strict=True))
                p = lits
                dead = False
                for f in tens:
                    v = env[f[1]].get(tuple(ie[i] for i in f[2]))
                    if v is None:
                        dead = True
                        break
                    p = p * v
                if not dead:
                    tot = tot + p
            out[tv] = out[tv] + tot
    return out


def support(prog, stored, DIM):
    """stored: name -> set of dimension-order coordinates the tensor stores.  Returns the set of
    target coordinates that have structural support."""
    tname, tgt, tree = prog
    S = set()
    for _s, factors in terms(tree):
        idxs = list(tgt)
        for i in term_indexes(factors):
            if i not in idxs:
                idxs.append(i)
        tens = [f for f in factors if f[0] == "t"]
        for v in itertools.product(*[range(DIM[i]) for i in idxs]):
            ie = dict(zip(idxs, v, strict=True))
            if all(tuple(ie[i] for i in f[2]) in stored[f[1]] for f in tens):
                S.add(tuple(ie[i] for i in tgt))
    return S
