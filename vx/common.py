"""Shared runner machinery: tiers/seeds, worker pools, violations, known findings, evidence."""

from __future__ import annotations

import hashlib
import json
import multiprocessing
import os
import re
import signal
import sys
import time
import traceback
from collections import Counter

VERIF = os.path.dirname(os.path.dirname(os.path.abspath(__file__)))
REPO = os.environ.get("VERIF_REPO", "/repo")
BUILD_DIR = os.path.join(VERIF, "build")
# evidence and replays of the tree under test (/repo) live in /verif; runs against a scratch worktree
# (VERIF_REPO, used to try seeded changes) must never overwrite them
_SCRATCH = os.path.realpath(REPO) != "/repo"
EVIDENCE_DIR = os.path.join(BUILD_DIR, "scratch", "evidence") if _SCRATCH else os.path.join(VERIF, "evidence")
REPLAY_DIR = os.path.join(BUILD_DIR, "scratch", "replays") if _SCRATCH else os.path.join(VERIF, "replays")
KNOWN_FINDINGS = os.path.join(VERIF, "known_findings.json")
NPROC = int(os.environ.get("VERIF_NPROC", "16"))

# Time budget of one check invocation (seconds; VERIF_TIME_BUDGET overrides; the thorough tier defaults to 2.5 h, the
# quick tier has none).  When it is exhausted run_pool stops handing out work units; the units left over are counted
# and the evidence file says exhaustive=false and names the cap - a capped run is never reported as complete.
BUDGET = {"deadline": None, "seconds": None, "skipped": 0}
THOROUGH_DEFAULT_BUDGET = 9000.0


def assert_repo_tensora():
    """The checks must exercise /repo's working tree, nothing else."""
    import tensora

    src = os.path.realpath(os.path.dirname(tensora.__file__))
    want = os.path.realpath(os.path.join(REPO, "src", "tensora"))
    if src != want:
        print(f"FATAL: tensora imported from {src}, expected {want}", file=sys.stderr)
        sys.exit(2)


def tier_and_seed(argv_tier=None):
    tier = argv_tier or os.environ.get("VERIF_TIER") or "quick"
    if tier not in ("quick", "thorough"):
        tier = "quick"
    try:
        seed = int(os.environ.get("VERIF_SEED", "0"))
    except ValueError:
        seed = 0
    return tier, seed


def rotate(items, seed):
    """VERIF_SEED never selects which cases run; it only rotates where enumeration starts."""
    items = list(items)
    if not items:
        return items
    k = seed % len(items)
    return items[k:] + items[:k]


class TimeLimit:
    """Wall-clock hang detector for a single step inside a worker (generous limits only)."""

    def __init__(self, seconds, what=""):
        self.seconds = seconds
        self.what = what

    def _handler(self, signum, frame):
        raise TimeoutError(f"{self.what} exceeded {self.seconds}s")

    def __enter__(self):
        self.old = signal.signal(signal.SIGALRM, self._handler)
        signal.setitimer(signal.ITIMER_REAL, self.seconds)

    def __exit__(self, *a):
        signal.setitimer(signal.ITIMER_REAL, 0)
        signal.signal(signal.SIGALRM, self.old)
        return False


# --------------------------------------------------------------------------- pools


def _worker_main(conn, env):
    os.environ.update(env)
    import importlib

    while True:
        try:
            job = conn.recv()
        except EOFError:
            return
        if job is None:
            return
        idx, modname, fname, arg = job
        try:
            mod = importlib.import_module(modname)
            res = ("ok", getattr(mod, fname)(arg))
        except BaseException as e:  # a worker must never die silently
            res = ("worker-exception", f"{type(e).__name__}: {e}\n{traceback.format_exc()}")
        try:
            conn.send((idx, res))
        except Exception as e:  # noqa: BLE001 - unpicklable result
            conn.send((idx, ("worker-exception", f"result not transferable: {type(e).__name__}: {e}")))


def run_pool(modname, fname, args, env=None, nproc=None, progress=None, task_timeout=3600.0):
    """Run modname.fname(arg) for every arg in fresh (spawned) long-lived workers; ordered results.

    A worker that dies (segfault in native code, os._exit) or exceeds task_timeout is reported as
    ("worker-died" | "worker-timeout", description) for the task it held and is replaced.
    """
    from multiprocessing.connection import wait

    env = dict(env or {})
    env.setdefault("TENSORA_VERIF", "1")
    args = list(args)
    n = len(args)
    results = [None] * n
    if n == 0:
        return results
    nproc = min(nproc or NPROC, n)
    ctx = multiprocessing.get_context("spawn")
    old = {k: os.environ.get(k) for k in env}
    os.environ.update(env)
    workers = {}  # conn -> [process, current idx or None, start time]
    next_idx = 0
    done = 0
    # VERIF_FAIL_FAST=1 (only used when re-running seeded changes): stop handing out work once a work unit has
    # reported a violation that is not a known finding; the remaining units are returned as ("skipped", ...)
    fail_fast = os.environ.get("VERIF_FAIL_FAST") == "1"
    known = [k for k in load_known_findings() if k.get("status") == "known"] if fail_fast else []
    stop = [False]

    def is_new(f):
        sig = f.get("signature", {})
        return not any(_match(k["match"], sig) for k in known)

    def start_worker():
        parent, child = ctx.Pipe()
        p = ctx.Process(target=_worker_main, args=(child, env), daemon=True)
        p.start()
        child.close()
        workers[parent] = [p, None, 0.0]
        return parent

    def give(conn):
        nonlocal next_idx, done
        over = BUDGET["deadline"] is not None and time.time() > BUDGET["deadline"]
        if stop[0] or over:
            why = "fail-fast: a violation was already found" if stop[0] else "time budget exhausted"
            while next_idx < n:
                results[next_idx] = ("skipped", why)
                next_idx += 1
                done += 1
                if not stop[0]:
                    BUDGET["skipped"] += 1
        if next_idx < n:
            workers[conn][1] = next_idx
            workers[conn][2] = time.time()
            conn.send((next_idx, modname, fname, args[next_idx]))
            next_idx += 1
        else:
            workers[conn][1] = None
            try:
                conn.send(None)
            except Exception:  # noqa: BLE001
                pass

    try:
        for _ in range(nproc):
            give(start_worker())
        while done < n:
            busy = [c for c, w in workers.items() if w[1] is not None]
            ready = wait(busy, timeout=5.0)
            now = time.time()
            for conn in ready:
                w = workers[conn]
                try:
                    idx, res = conn.recv()
                except (EOFError, OSError):
                    idx = w[1]
                    w[0].join(timeout=5)
                    res = ("worker-died", f"worker process died (exit code {w[0].exitcode}) while running "
                                          f"{modname}.{fname} on work unit {idx}")
                    del workers[conn]
                    conn.close()
                    results[idx] = res
                    done += 1
                    give(start_worker())
                    continue
                results[idx] = res
                done += 1
                if fail_fast and res[0] == "ok" and isinstance(res[1], dict) and any(
                        is_new(f) for f in res[1].get("findings", [])):
                    stop[0] = True
                if progress and done % progress == 0:
                    print(f"  .. {done}/{n} work units", flush=True)
                give(conn)
            for conn in list(workers):
                w = workers[conn]
                if w[1] is not None and now - w[2] > task_timeout:
                    idx = w[1]
                    w[0].kill()
                    w[0].join(timeout=5)
                    del workers[conn]
                    conn.close()
                    results[idx] = ("worker-timeout", f"work unit {idx} of {modname}.{fname} exceeded "
                                                       f"{task_timeout}s and was killed")
                    done += 1
                    give(start_worker())
    finally:
        for conn, w in list(workers.items()):
            try:
                conn.send(None)
            except Exception:  # noqa: BLE001
                pass
        for conn, w in list(workers.items()):
            w[0].join(timeout=2)
            if w[0].is_alive():
                w[0].kill()
            conn.close()
        for k, v in old.items():
            if v is None:
                os.environ.pop(k, None)
            else:
                os.environ[k] = v
    return results


def cap_findings(findings, per_signature=4, total=400):
    """Keep the first few findings of every distinct signature (never let one family hide another)."""
    seen = Counter()
    out = []
    for f in findings:
        key = json.dumps(jsonable(f.get("signature", {})), sort_keys=True)
        seen[key] += 1
        if seen[key] <= per_signature and len(out) < total:
            out.append(f)
    return out


_TOO_MANY_MEMO: dict = {}


def too_many(findings, limit=25):
    """Stop exploring a work unit only when many DISTINCT violation families were seen, so a known
    family can never hide a different violation behind it.  Incremental: each finding is looked at once."""
    if len(findings) < limit:
        return False
    memo = _TOO_MANY_MEMO.get(id(findings))
    if memo is None or memo[0] > len(findings):
        memo = [0, set()]
        _TOO_MANY_MEMO.clear()
        _TOO_MANY_MEMO[id(findings)] = memo
    for f in findings[memo[0]:]:
        memo[1].add(json.dumps(jsonable(f.get("signature", {})), sort_keys=True))
    memo[0] = len(findings)
    return len(memo[1]) >= limit


def chunked(seq, n):
    seq = list(seq)
    return [seq[i : i + n] for i in range(0, len(seq), n)]


# --------------------------------------------------------------------------- findings


def load_known_findings():
    if not os.path.exists(KNOWN_FINDINGS):
        return []
    with open(KNOWN_FINDINGS) as f:
        return json.load(f)["findings"]


def _match(entry_match: dict, signature: dict) -> bool:
    for k, want in entry_match.items():
        if k.endswith("_regex"):
            got = signature.get(k[: -len("_regex")])
            if got is None or not re.search(want, str(got)):
                return False
        elif k.endswith("_in"):
            got = signature.get(k[: -len("_in")])
            if got not in want:
                return False
        else:
            if signature.get(k) != want:
                return False
    return True


def jsonable(x):
    from fractions import Fraction

    if isinstance(x, dict):
        return {str(k): jsonable(v) for k, v in x.items()}
    if isinstance(x, (list, tuple, set, frozenset)):
        return [jsonable(v) for v in (sorted(x, key=repr) if isinstance(x, (set, frozenset)) else x)]
    if isinstance(x, (str, int, bool)) or x is None:
        return x
    if isinstance(x, float):
        return x if x == x and x not in (float("inf"), float("-inf")) else repr(x)
    if isinstance(x, Fraction):
        return str(x)
    return repr(x)


class Run:
    """One invocation of one check."""

    def __init__(self, property_id, tier, seed, level="model_checking"):
        self.pid = property_id
        self.tier = tier
        self.seed = seed
        self.level = level
        self.t0 = time.time()
        self.violations: list[dict] = []
        self.known_hits: dict[str, dict] = {}
        self.known = [k for k in load_known_findings() if k["property"] == property_id]
        self.counters = Counter()
        self.samples: list = []
        self.assumptions: list[str] = []
        self.coverage: dict = {}
        self.notes: list[str] = []
        self._seen_sigs = set()
        budget = os.environ.get("VERIF_TIME_BUDGET")
        seconds = float(budget) if budget else (THOROUGH_DEFAULT_BUDGET if tier == "thorough" else None)
        BUDGET.update(deadline=(self.t0 + seconds) if seconds else None, seconds=seconds, skipped=0)
        print(f"[{self.pid}] tier={tier} seed={seed} nproc={NPROC}" + (f" time budget {seconds:.0f}s" if seconds else ""),
              flush=True)

    # a finding: {"signature": {...}, "what": str, "case": {...}}
    def report(self, finding: dict):
        sig = finding.get("signature", {})
        for entry in self.known:
            if entry.get("status") == "known" and _match(entry["match"], sig):
                hit = self.known_hits.setdefault(entry["id"], {"entry": entry, "count": 0, "first": finding})
                hit["count"] += 1
                return "known"
        self.violations.append(finding)
        return "violation"

    def report_all(self, findings):
        for f in findings:
            self.report(f)

    def sample(self, s, limit=6):
        if len(self.samples) < limit:
            self.samples.append(jsonable(s))

    def write_replay(self, finding: dict) -> str:
        d = os.path.join(REPLAY_DIR, self.pid)
        os.makedirs(d, exist_ok=True)
        body = json.dumps(jsonable(finding), sort_keys=True, indent=1)
        h = hashlib.sha1(body.encode()).hexdigest()[:12]
        path = os.path.join(d, f"{h}.json")
        with open(path, "w") as f:
            f.write(body + "\n")
        return path

    def finish(self, *, states, transitions, traces_validated, evaluations, distinct_nontrivial,
               rule, exhaustive=True, extra=None):
        wall = time.time() - self.t0
        cov = {
            "states": int(states),
            "transitions": int(transitions),
            "traces_validated_against_impl": int(traces_validated),
            "samples": self.samples or ["(no sample recorded)"],
            "evaluations": int(evaluations),
            "distinct_nontrivial": int(distinct_nontrivial),
            "rule": rule,
            "exhaustive": bool(exhaustive),
            "counters": dict(sorted(self.counters.items())),
        }
        if extra:
            cov.update(jsonable(extra))
        cov.update(jsonable(self.coverage))
        if BUDGET["skipped"]:
            cov["exhaustive"] = False
            cov["time_budget"] = {"seconds": BUDGET["seconds"], "work_units_not_explored": BUDGET["skipped"],
                                  "meaning": "the time budget was exhausted: the work units counted here were not explored; "
                                             "everything else reported in this file was explored completely"}
            print(f"[{self.pid}] time budget of {BUDGET['seconds']:.0f}s exhausted: {BUDGET['skipped']} work unit(s) not "
                  "explored (evidence says exhaustive=false)", flush=True)
        if self.notes:
            cov["notes"] = self.notes
        cov["known_findings_hit"] = {
            k: {"count": v["count"], "what": v["entry"]["what"]} for k, v in self.known_hits.items()
        }
        ev = {
            "property_id": self.pid,
            "tier": self.tier,
            "seed": self.seed,
            "level": self.level,
            "coverage": cov,
            "assumptions": self.assumptions,
            "wall_s": round(wall, 2),
            "violations": len(self.violations),
        }
        os.makedirs(EVIDENCE_DIR, exist_ok=True)
        tmp = os.path.join(EVIDENCE_DIR, f".{self.pid}.json.tmp")
        with open(tmp, "w") as f:
            json.dump(ev, f, indent=1, sort_keys=True)
            f.write("\n")
        os.replace(tmp, os.path.join(EVIDENCE_DIR, f"{self.pid}.json"))
        for _id, hit in sorted(self.known_hits.items()):
            print(f"KNOWN-FINDING: property={self.pid} {hit['entry']['what']} "
                  f"[{hit['entry']['id']}; {hit['count']} case(s) in this run]")
        # group violations by signature so that the output stays readable
        groups: dict[str, list[dict]] = {}
        for v in self.violations:
            key = json.dumps(jsonable(v.get("signature", {})), sort_keys=True)
            groups.setdefault(key, []).append(v)
        for key, vs in groups.items():
            path = self.write_replay(vs[0])
            print(f"VIOLATION property={self.pid} replay={path}")
            print(f"  what: {vs[0].get('what')}")
            print(f"  signature: {key}  ({len(vs)} case(s))")
        print(
            f"[{self.pid}] states={cov['states']} transitions={cov['transitions']} "
            f"validated={cov['traces_validated_against_impl']} evaluations={cov['evaluations']} "
            f"nontrivial={cov['distinct_nontrivial']} violations={len(self.violations)} "
            f"known={sum(h['count'] for h in self.known_hits.values())} wall={wall:.1f}s",
            flush=True,
        )
        return 1 if self.violations else 0
