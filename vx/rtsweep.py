"""RT sweep: the kernel explorer's oracles through the REAL call path.

For every kernel of a program space (non-broadcast programs only: TensorMethod refuses broadcast
targets) the real tensor_method(...) is built (LLVM JIT) and called on real Tensor objects holding
every joint input structure within the cap, with exact dyadic values.  The returned Tensor is read
through its raw C arrays and judged by the same reference / support models as the abstract-machine
runs: dimensions, value at every coordinate (C01), well-formedness and usability as an input,
through pickle, to_format and == (C02), no phantom coordinates (C03).  Every agreeing call is also
one abstract-machine-independent validation of the reference model against the implementation.
"""

from __future__ import annotations

import pickle
import time
from collections import Counter
from fractions import Fraction

from tensora.desugar import DiagonalAccessError, NoKernelFoundError
from tensora.format import Mode

from . import kx, space
from .common import cap_findings, too_many
from .refmodel import reference, support
from .rt import raw_decode, raw_image, tensor_from_structure
from .tensors import fmt_str, parse_fmt


def exact(x):
    """Fraction of a float, or None for a non-finite value (which then differs from every expectation)."""
    try:
        return Fraction(x)
    except (ValueError, OverflowError):
        return None


def values_for(ti, n):
    return [Fraction(q + 1, 4) + ti for q in range(n)]


def work(unit):
    from tensora import Tensor, tensor_method
    from tensora.compile import BroadcastTargetIndexError

    t0 = time.time()
    stats = Counter()
    findings = []
    samples = []
    calls = 0
    cap = unit["cap"]
    pid = unit.get("pid")
    for pj, fj in unit["kernels"]:
        prog = space.prog_from_json(pj)
        fmts = {n: parse_fmt(s) for n, s in fj.items()}
        names = list(fmts)
        text = space.prog_str(prog)
        try:
            tm = tensor_method(text, {n: fmts[n].deparse() for n in names})
        except (NoKernelFoundError, DiagonalAccessError, BroadcastTargetIndexError):
            stats["refused"] += 1
            continue
        except Exception as e:  # noqa: BLE001
            stats[f"tensor_method raised {type(e).__name__}"] += 1
            findings.append(kx.finding(["C08"], "generator-crash", f"tensor_method raised {type(e).__name__}: {e}",
                                       {"assignment": text, "formats": fj}, exception=type(e).__name__))
            continue
        stats["kernels"] += 1
        out = prog[0]
        ofmt = fmts[out]
        ops = [n for n in names if n != out]
        for DIM, _tag in space.dim_vectors(prog, fmts, cap, deviations=unit.get("deviations", True)):
            odims = tuple(DIM[i] for i in prog[1])
            for joint in space.joint_structures(prog, fmts, DIM):
                calls += 1
                env = {}
                args = {}
                for ti, n in enumerate(ops):
                    st = joint[n]
                    vs = values_for(ti, len(st.paths))
                    env[n] = dict(zip(st.coords(), vs, strict=True))
                    args[n] = tensor_from_structure(st, vs)
                case = {"assignment": text, "program": pj, "formats": fj, "dimensions": dict(DIM),
                        "inputs": {n: st.describe() for n, st in joint.items()}, "entry": "tensor_method (LLVM JIT)"}

                def add(props, kind, what, **sig):
                    findings.append(kx.finding(props, kind, what, case, entry="runtime", **sig))

                try:
                    res = tm(**args)
                except Exception as e:  # noqa: BLE001
                    add(["C01", "C10"], "call-raises", f"consistent call raised {type(e).__name__}: {e}",
                        exception=type(e).__name__)
                    continue
                dims, fmt, stored, problems = raw_decode(res)
                if tuple(dims) != odims:
                    add(["C01"], "dimensions", f"result dimensions {dims}, target indexes say {odims}")
                    continue
                if fmt != fmt_str(ofmt):
                    add(["C01", "C02"], "format", f"result format {fmt}, requested {fmt_str(ofmt)}")
                if problems:
                    add(["C02"], "malformed", f"returned tensor is not well-formed: {problems[:3]}",
                        clause=kx._clause(problems[0]))
                    continue
                exp = reference(prog, env, DIM, zero=Fraction(0), lift=Fraction)
                bad = [c for c, v in exp.items() if exact(stored.get(c, 0.0)) != v] + [c for c in stored if c not in exp]
                if bad:
                    c0 = bad[0]
                    add(["C01"], "value", f"value differs from tensor algebra at {c0}: got {stored.get(c0)}, "
                                          f"expected {float(exp.get(c0, 0))}")
                    continue
                sup = support(prog, {n: set(env[n]) for n in env}, DIM)
                _d, _m, ordering, levels, _v = raw_image(res)
                level_sets = kx.level_prefixes([None if lv is None else (list(lv[0]), list(lv[1])) for lv in levels],
                                               [odims[o] for o in ordering])
                ph = kx.phantom_prefixes(list(stored), sup, ofmt, level_sets)
                if ph:
                    add(["C03"], "phantom", f"stores unsupported coordinate prefix {ph[0][1]} at level {ph[0][0]}")
                stats["calls agreeing with the reference"] += 1
                # usability of the result (C02): pickle, to_format, ==, and as input of a copy kernel
                if unit.get("usability") and any(m == Mode.compressed for m in ofmt.modes):
                    try:
                        r2 = pickle.loads(pickle.dumps(res))
                        if raw_decode(r2)[2] != stored:
                            add(["C02"], "unusable", "pickle round trip changed the result", step="pickle")
                        if not (res == r2):
                            add(["C02"], "unusable", "result != its own pickle copy", step="==")
                        r3 = res.to_format("d" * len(odims))
                        nz = {c: v for c, v in stored.items() if v != 0.0}
                        if {c: v for c, v in raw_decode(r3)[2].items() if v != 0.0} != nz:
                            add(["C02"], "unusable", "to_format(dense) changed the content", step="to_format")
                        idx = ",".join(f"i{k}" for k in range(len(odims)))
                        copy = tensor_method(f"y({idx}) = x({idx})", {"y": "d" * len(odims), "x": ofmt.deparse()})
                        r4 = copy(x=res)
                        if {c: v for c, v in raw_decode(r4)[2].items() if v != 0.0} != nz:
                            add(["C02"], "unusable", "feeding the result to a copy kernel changed the content", step="feed")
                        stats["results reused (pickle, ==, to_format, feed)"] += 1
                    except (NoKernelFoundError,):
                        pass
                    except Exception as e:  # noqa: BLE001
                        add(["C02"], "unusable", f"using the result raised {type(e).__name__}: {e}", step="raises")
                if len(samples) < 1 and stored and any(len(st.paths) for st in joint.values()):
                    samples.append({**case, "result": {str(k): v for k, v in stored.items()}})
                if too_many(findings):
                    break
            if too_many(findings):
                break
    if pid:
        findings = [f for f in findings if pid in f["props"]]
    return {"stats": dict(stats), "findings": cap_findings(findings), "samples": samples, "calls": calls,
            "wall": time.time() - t0}


def phase(run, tier, seed, tot, pid, usability=False, sparse_only=False):
    """Extra phase for C01/C02/C03: returns the number of calls validated against the implementation."""
    from .common import chunked, rotate, run_pool

    if sparse_only:
        progs = space.enumerate_programs(2, 4, repeats=False) if tier == "quick" else space.enumerate_programs(2, 5, repeats=False)
    else:
        progs = space.enumerate_programs(2, 3) if tier == "quick" else space.enumerate_programs(2, 4)
    specs = []
    for p in progs:
        rhs = {i for l in space.tree_leaves(p[2]) if l[0] == "t" for i in l[2]}
        if not all(i in rhs for i in p[1]):
            continue
        names, combos = space.format_combos(p)
        for combo in combos:
            if sparse_only and not any(m == Mode.compressed for m in combo[0].modes):
                continue
            specs.append((space.prog_json(p), space.fmts_json(names, dict(zip(names, combo, strict=True)))))
    units = [{"kernels": ch, "cap": 16 if tier == "quick" else 32, "pid": pid, "usability": usability}
             for ch in chunked(specs, 24)]
    print(f"[{pid}] real call path: {len(specs)} tensor_method requests in {len(units)} work units", flush=True)
    validated = 0
    for status, res in run_pool("vx.rtsweep", "work", rotate(units, seed)):
        if status == "skipped":
            continue
        if status != "ok":
            run.report({"signature": {"kind": status}, "what": f"worker failed in the real-call-path sweep: {res}", "case": {}})
            continue
        for k, v in res["stats"].items():
            run.counters["runtime: " + k] += v
        validated += res["stats"].get("calls agreeing with the reference", 0)
        tot["states"] += res["calls"]
        tot["transitions"] += res["calls"]
        for s in res["samples"]:
            run.sample(s, limit=8)
        run.report_all(res["findings"])
    run.coverage["real_call_path"] = ("every non-broadcast program of the L<=2,S<=3 (sparse-output checks: S<=4; thorough: "
                                      "one more) space x all formats "
                                      "through tensor_method (LLVM JIT) on every joint input structure within the cap, "
                                      "result read from the raw C arrays")
    return validated
