"""Stored-tensor structures: exhaustive enumeration, AM heap images, decoding and validation.

A *structure* is what a format stores for one tensor: per compressed level a (pos, crd) pair, and
the list of stored level-order paths (dense levels are filled).  Structures are enumerated
exhaustively -- including stored prefixes with empty segments, which a kernel may legitimately be
handed -- and are shared by the abstract machine, the native harness and the cffi runtime.
"""

from __future__ import annotations

import itertools
from math import comb

from tensora.format import Format, Mode

from .am import NULL, UNINIT, Machine, Ptr, TensorStruct

__all__ = [
    "Structure",
    "all_formats",
    "count_structures",
    "enumerate_structures",
    "full_structure",
    "structure_from_coords",
    "am_input",
    "am_output",
    "am_decode",
    "fmt_str",
]


def fmt_str(fmt: Format) -> str:
    return "".join(m.character + str(o) for m, o in zip(fmt.modes, fmt.ordering, strict=True))


def parse_fmt(s: str) -> Format:
    modes = tuple(Mode.dense if ch == "d" else Mode.compressed for ch in s[0::2])
    ordering = tuple(int(ch) for ch in s[1::2])
    return Format(modes, ordering)


_fmt_cache: dict[int, list[Format]] = {}


def all_formats(order: int) -> list[Format]:
    if order not in _fmt_cache:
        out = []
        for modes in itertools.product((Mode.dense, Mode.compressed), repeat=order):
            for perm in itertools.permutations(range(order)):
                out.append(Format(tuple(modes), tuple(perm)))
        _fmt_cache[order] = out
    return _fmt_cache[order]


class Structure:
    __slots__ = ("fmt", "dims", "levels", "paths")

    def __init__(self, fmt: Format, dims, levels, paths):
        self.fmt = fmt
        self.dims = tuple(dims)
        self.levels = levels  # per level: None (dense) or (pos tuple, crd tuple)
        self.paths = paths  # level-order coordinate tuples, storage order

    def coords(self):
        """Dimension-order coordinate of every stored value position."""
        ordering = self.fmt.ordering
        order = len(ordering)
        out = []
        for p in self.paths:
            c = [0] * order
            for lev, d in enumerate(ordering):
                c[d] = p[lev]
            out.append(tuple(c))
        return out

    def key(self):
        return (fmt_str(self.fmt), self.dims, tuple(self.levels))

    def describe(self):
        return {
            "format": fmt_str(self.fmt),
            "dimensions": list(self.dims),
            "levels": [None if l is None else [list(l[0]), list(l[1])] for l in self.levels],
        }

    @staticmethod
    def from_description(d):
        fmt = parse_fmt(d["format"])
        levels = [None if l is None else (tuple(l[0]), tuple(l[1])) for l in d["levels"]]
        dims = tuple(d["dimensions"])
        lvl_dims = [dims[o] for o in fmt.ordering]
        paths = [()]
        for l, lv in enumerate(levels):
            if lv is None:
                paths = [p + (x,) for p in paths for x in range(lvl_dims[l])]
            else:
                pos, crd = lv
                paths = [
                    p + (crd[k],) for q, p in enumerate(paths) for k in range(pos[q], pos[q + 1])
                ]
        return Structure(fmt, dims, levels, paths)


def _subsets(n):
    items = list(range(n))
    for r in range(n + 1):
        yield from itertools.combinations(items, r)


def count_structures(fmt: Format, dims) -> int:
    lvl_dims = [dims[o] for o in fmt.ordering]
    order = len(lvl_dims)

    def count(l, n):
        if l == order:
            return 1
        d = lvl_dims[l]
        if fmt.modes[l] == Mode.dense:
            return count(l + 1, n * d)
        return sum(comb(d * n, k) * count(l + 1, k) for k in range(d * n + 1))

    return count(0, 1)


def enumerate_structures(fmt: Format, dims):
    """Every well-formed stored structure of this format with these dimensions."""
    lvl_dims = [dims[o] for o in fmt.ordering]
    order = len(lvl_dims)

    def rec(l, paths):
        if l == order:
            yield [], paths
            return
        d = lvl_dims[l]
        if fmt.modes[l] == Mode.dense:
            newpaths = [p + (x,) for p in paths for x in range(d)]
            for rest, final in rec(l + 1, newpaths):
                yield [None, *rest], final
        else:
            subsets = list(_subsets(d))
            for choice in itertools.product(subsets, repeat=len(paths)):
                pos = [0]
                crd = []
                newpaths = []
                for p, sub in zip(paths, choice, strict=True):
                    crd.extend(sub)
                    pos.append(len(crd))
                    newpaths.extend(p + (x,) for x in sub)
                lv = (tuple(pos), tuple(crd))
                for rest, final in rec(l + 1, newpaths):
                    yield [lv, *rest], final

    for levels, paths in rec(0, [()]):
        yield Structure(fmt, dims, levels, paths)


def structure_from_coords(fmt: Format, dims, coords) -> Structure:
    """The structure Tensor.from_dok would build for these dimension-order coordinates."""
    ordering = fmt.ordering
    lvl_dims = [dims[o] for o in ordering]
    lcoords = sorted({tuple(c[o] for o in ordering) for c in coords})
    levels = []
    paths = [()]
    for l, mode in enumerate(fmt.modes):
        if mode == Mode.dense:
            paths = [p + (x,) for p in paths for x in range(lvl_dims[l])]
            levels.append(None)
        else:
            pos = [0]
            crd = []
            newpaths = []
            for p in paths:
                xs = sorted({c[l] for c in lcoords if c[:l] == p})
                crd.extend(xs)
                pos.append(len(crd))
                newpaths.extend(p + (x,) for x in xs)
            levels.append((tuple(pos), tuple(crd)))
            paths = newpaths
    return Structure(fmt, dims, levels, paths)


def full_structure(fmt: Format, dims) -> Structure:
    cells = list(itertools.product(*[range(d) for d in dims]))
    return structure_from_coords(fmt, dims, cells)


# --------------------------------------------------------------------------- AM images


def am_input(m: Machine, name: str, st: Structure, values, owner="input") -> TensorStruct:
    order = len(st.dims)
    lvls = []
    for l, lv in enumerate(st.levels):
        if lv is None:
            lvls.append(NULL)
        else:
            pb = m.new_block("int", len(lv[0]), owner, lv[0], label=f"{name}.pos{l}")
            cb = m.new_block("int", len(lv[1]), owner, lv[1], label=f"{name}.crd{l}")
            lvls.append(Ptr(m.new_block("ptr", 2, owner, [Ptr(pb), Ptr(cb)], label=f"{name}.lvl{l}")))
    vb = m.new_block("float", len(values), owner, values, label=f"{name}.vals")
    db = m.new_block("int", order, owner, list(st.dims), label=f"{name}.dims")
    ib = m.new_block("ptr", order, owner, lvls, label=f"{name}.indices")
    return TensorStruct(name, Ptr(db), Ptr(ib), Ptr(vb), owner)


def am_output(m: Machine, name: str, fmt: Format, dims) -> TensorStruct:
    order = len(dims)
    lvls = []
    for l, mode in enumerate(fmt.modes):
        if mode == Mode.dense:
            lvls.append(NULL)
        else:
            lvls.append(Ptr(m.new_block("ptr", 2, "outstruct", [NULL, NULL], label=f"{name}.lvl{l}")))
    db = m.new_block("int", order, "input", list(dims), label=f"{name}.dims")
    ib = m.new_block("ptr", order, "input", lvls, label=f"{name}.indices")
    return TensorStruct(name, Ptr(db), Ptr(ib), NULL, "output")


def am_freeze_structure(ts: TensorStruct, fmt: Format):
    """After assemble: the structure may no longer change; vals may be written but not resized."""
    ts.frozen = True
    for l, mode in enumerate(fmt.modes):
        if mode == Mode.compressed:
            lv = ts.indices.block.cells[l]
            lv.block.readonly = True
            for p in lv.block.cells:
                if isinstance(p, Ptr) and p.block is not None:
                    p.block.readonly = True
    if ts.vals.block is not None:
        ts.vals.block.norealloc = True


def _block_of(p, what, problems, kind):
    if not isinstance(p, Ptr) or p.block is None:
        problems.append(f"{what} is NULL")
        return None
    b = p.block
    if b.freed:
        problems.append(f"{what} was freed (dangling)")
        return None
    if p.off != 0:
        problems.append(f"{what} is an interior pointer")
        return None
    if b.kind != kind:
        problems.append(f"{what} has element kind {b.kind}, expected {kind}")
        return None
    return b


def am_decode(ts: TensorStruct, fmt: Format, dims):
    """Decode the output tensor from the final heap, validating every C02 clause.

    Returns (stored, problems, image): stored maps dimension-order coordinates to values for every
    stored position (explicit zeros included); problems lists every violated well-formedness
    clause; image is the raw (levels, vals) content with exact block lengths.
    """
    problems: list[str] = []
    lvl_dims = [dims[o] for o in fmt.ordering]
    prefixes = [((), 0)]
    npos = 1
    image_levels = []
    fatal = False
    for l, mode in enumerate(fmt.modes):
        if mode == Mode.dense:
            d = lvl_dims[l]
            prefixes = [(p + (x,), q * d + x) for p, q in prefixes for x in range(d)]
            npos *= d
            image_levels.append(None)
            continue
        lvp = ts.indices.block.cells[l]
        lvb = _block_of(lvp, f"indices[{l}]", problems, "ptr")
        if lvb is None or len(lvb.cells) != 2:
            fatal = True
            break
        posb = _block_of(lvb.cells[0], f"level {l} pos", problems, "int")
        crdb = _block_of(lvb.cells[1], f"level {l} crd", problems, "int")
        if posb is None:
            fatal = True
            break
        if len(posb.cells) < npos + 1:
            problems.append(
                f"level {l} pos has {len(posb.cells)} entries, parent level has {npos} positions"
            )
            fatal = True
            break
        pos = posb.cells[: npos + 1]
        if any(x is UNINIT for x in pos):
            problems.append(f"level {l} pos has uninitialised entries {pos}")
            fatal = True
            break
        if pos[0] != 0:
            problems.append(f"level {l} pos[0] = {pos[0]}")
        if any(a > b for a, b in zip(pos, pos[1:])):
            problems.append(f"level {l} pos decreases: {pos}")
            fatal = True
            break
        n = pos[-1]
        if pos[0] < 0:
            fatal = True
            break
        if n > 0:
            if crdb is None:
                fatal = True
                break
            if len(crdb.cells) < n:
                problems.append(f"level {l} crd has {len(crdb.cells)} entries, pos says {n}")
                fatal = True
                break
            crd = crdb.cells[:n]
            if any(x is UNINIT for x in crd):
                problems.append(f"level {l} crd has uninitialised entries {crd}")
                fatal = True
                break
        else:
            crd = []
            # a NULL or zero-length crd is acceptable when nothing is stored
            problems[:] = [p for p in problems if p != f"level {l} crd is NULL"]
        newp = []
        for p, q in prefixes:
            seg = crd[pos[q] : pos[q + 1]]
            if any(a >= b for a, b in zip(seg, seg[1:])):
                problems.append(f"level {l} segment not strictly increasing: {seg}")
            if any(not (0 <= x < lvl_dims[l]) for x in seg):
                problems.append(f"level {l} coordinate outside dimension {lvl_dims[l]}: {seg}")
            newp.extend((p + (x,), pos[q] + k) for k, x in enumerate(seg))
        image_levels.append(
            {
                "pos": list(pos),
                "crd": list(crd),
                "pos_len": len(posb.cells),
                "crd_len": len(crdb.cells) if crdb is not None else 0,
            }
        )
        prefixes = newp
        npos = n
    stored = {}
    image_vals = None
    if not fatal:
        vb = _block_of(ts.vals, "vals", problems, "float")
        if vb is None:
            if npos == 0:
                problems[:] = [p for p in problems if p != "vals is NULL"]
                image_vals = {"vals": [], "vals_len": 0}
            else:
                fatal = True
        else:
            if len(vb.cells) < npos:
                problems.append(f"vals has {len(vb.cells)} entries for {npos} stored positions")
                fatal = True
            else:
                vals = vb.cells[:npos]
                if any(x is UNINIT for x in vals):
                    bad = [i for i, x in enumerate(vals) if x is UNINIT]
                    problems.append(f"vals uninitialised at positions {bad}")
                    fatal = True
                else:
                    image_vals = {"vals": vals, "vals_len": len(vb.cells)}
                    order = len(dims)
                    for p, q in prefixes:
                        c = [0] * order
                        for lev, d in enumerate(fmt.ordering):
                            c[d] = p[lev]
                        c = tuple(c)
                        if c in stored:
                            problems.append(f"coordinate {c} stored twice")
                        stored[c] = vals[q]
    image = None if fatal else {"levels": image_levels, **(image_vals or {})}
    return stored, problems, image
