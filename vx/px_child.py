"""PX child: run in a fresh interpreter with a given PYTHONHASHSEED; prints one JSON document with a
digest of the generated text of every request of the menu and the iteration orders it observed for
the probe sets (how the seed can reach tensora at all: the order of small sets of short strings)."""

from __future__ import annotations

import hashlib
import json
import sys


def main():
    spec = json.load(sys.stdin)
    from returns.result import Success

    from tensora.generate import Language, generate_code
    from tensora.kernel_type import KernelType
    from tensora.problem import Problem

    from . import space
    from .tensors import parse_fmt

    kinds = [KernelType.assemble, KernelType.compute, KernelType.evaluate]
    out = {}
    for pj, fj in spec["requests"]:
        prog = space.prog_from_json(pj)
        fmts = {n: parse_fmt(s) for n, s in fj.items()}
        key = json.dumps([pj, fj], sort_keys=False)
        res = []
        for lang in (Language.c, Language.llvm):
            try:
                r = generate_code(Problem(space.to_assignment(prog), fmts), kinds, lang)
                if isinstance(r, Success):
                    res.append(hashlib.sha1(r.unwrap().encode()).hexdigest())
                else:
                    res.append("refused:" + type(r.failure()).__name__)
            except BaseException as e:  # noqa: BLE001
                res.append("raised:" + type(e).__name__)
        out[key] = res
    probes = {}
    for name, items in spec["probes"].items():
        probes[name] = list(set(items))
        probes[name + "/frozenset"] = list(frozenset(items))
    json.dump({"digests": out, "probes": probes, "hashseed": spec.get("seed")}, sys.stdout)


if __name__ == "__main__":
    main()
