"""HX: history explorer for live objects (C13).  Runs with LD_PRELOAD=build/shim.so.

Breadth-first search over operation sequences applied to real tensora objects held in three name
slots.  A state is rebuilt by replaying its history on fresh slots (live cffi objects cannot be
copied); states are deduplicated by a canonical form (slot -> object class / view / kind / origin,
pending-garbage flag).  After every operation the interposer's watch table is compared with the
reference model of which kernel-allocated arrays must be alive.
"""

from __future__ import annotations

import ctypes
import gc
import json
import pickle
import sys
import time
from collections import Counter, deque

SLOTS = ("x", "y", "z")
W_LIVE, W_FREED, W_GONE = 1, 2, 3


def direct_method(assignment, formats, backend):
    from tensora.compile import TensorMethod
    from tensora.expression import parse_assignment
    from tensora.format import parse_format
    from tensora.problem import Problem

    return TensorMethod(Problem(parse_assignment(assignment).unwrap(),
                                {n: parse_format(f).unwrap() for n, f in formats}), backend)


class Obj:
    def __init__(self, oid, kind, origin, addrs, image, backend):
        self.oid = oid
        self.kind = kind  # 's' | 'd' | '0'
        self.origin = origin  # 'k' kernel-allocated arrays | 'p' rebuilt by pickle (no malloc'd arrays)
        self.addrs = addrs  # [(address, nbytes, bytes)]
        self.image = image
        self.backend = backend


class Harness:
    def __init__(self, backends):
        from tensora import Tensor
        from tensora.compile import BackendCompiler, tensor_method

        self.shim = ctypes.CDLL(None)
        try:
            self.shim.verif_present
        except AttributeError:
            raise SystemExit("shim.so is not preloaded") from None
        self.shim.verif_watch.argtypes = [ctypes.c_void_p]
        self.shim.verif_query.argtypes = [ctypes.c_int]
        self.shim.verif_forget.argtypes = [ctypes.c_int]
        self.shim.verif_last_double_free.restype = ctypes.c_void_p
        self.Tensor = Tensor
        self.b = Tensor.from_dok({(0,): 1.5, (2,): 2.5}, dimensions=(4,), format="s")
        self.c = Tensor.from_dok({(2,): 4.0, (3,): 8.0}, dimensions=(4,), format="s")
        self.two = Tensor.from_lol([2.0, 2.0, 2.0, 2.0])
        # a matrix with a zero-sized dimension: its block-sparse copy has arrays of length 0
        self.zero = Tensor.from_dok({}, dimensions=(3, 0), format="ss")
        self.mat = Tensor.from_dok({(0, 1): 1.5, (2, 0): 2.5}, dimensions=(3, 2), format="ds")
        self.methods = {}
        for be in backends:
            B = BackendCompiler[be]
            self.methods[("s", be)] = tensor_method("a(i) = b(i) + c(i)", {"a": "s", "b": "s", "c": "s"}, B)
            # two methods built from a Problem directly, with the target not the first kernel parameter
            # (only the porcelain puts it first)
            self.methods[("d", be)] = direct_method("a(i) = b(i) + c(i)", [("b", "s"), ("c", "s"), ("a", "d")], B)
            self.methods[("0", be)] = direct_method("a() = b(i) * c(i)", [("b", "s"), ("a", ""), ("c", "s")], B)
            self.methods[("z", be)] = tensor_method("a(i,j) = b(i,j) * 2", {"a": "sd", "b": "ss"}, B)
            self.methods[("m", be)] = tensor_method("a(i,j) = b(i,j) * 2", {"a": "sd", "b": "ds"}, B)
        from tensora.compile import evaluate_cffi, evaluate_tensora

        self.evaluate = {"llvm": evaluate_tensora, "cffi": evaluate_cffi}
        # first use of the porcelain path (FEED) compiles; like the methods above that happens before tracking starts
        for be in backends:
            for kind in "sd":
                src = self.methods[(kind, be)](b=self.b, c=self.c)
                self.evaluate[be]("a(i) = b(i) * c(i)", kind, b=src, c=self.two)
                del src
        gc.collect()
        self.double_frees_seen = self.shim.verif_double_frees()
        self.shim.verif_track(1)
        self.reset()

    def reset(self):
        self.slots = {}
        self.real = {}
        self.objs = {}
        self.zombies = []
        self.next_oid = 0
        self.watched = set()
        self.pending_problems = []

    # ------------------------------------------------------------------ real side
    def arrays_of(self, t):
        """Addresses and contents of every array the kernel allocated for this result."""
        from tensora.compile._cffi_ownership import tensor_cdefs as ffi

        from .rt import raw_image

        dims, modes, ordering, levels, vals = raw_image(t)
        ct = t.cffi_tensor
        ind = ffi.cast("int32_t***", ct.indices)
        out = []
        for l, lv in enumerate(levels):
            if lv is not None:
                for k, arr in enumerate(lv):
                    p = int(ffi.cast("uintptr_t", ind[l][k]))
                    if p:
                        out.append((p, 4 * len(arr), ctypes.string_at(p, 4 * len(arr))))
        p = int(ffi.cast("uintptr_t", ct.vals))
        if p:
            out.append((p, 8 * len(vals), ctypes.string_at(p, 8 * len(vals))))
        return out, (dims, modes, ordering, levels, vals)

    def new_kernel_obj(self, t, kind, backend):
        raw, image = self.arrays_of(t)
        addrs = []
        for p, n, b in raw:
            handle = self.shim.verif_watch(p)
            if handle < 0:
                raise RuntimeError("interposer watch table is full")
            addrs.append((p, n, b, handle))
        o = Obj(self.next_oid, kind, "k", addrs, image, backend)
        self.next_oid += 1
        self.objs[o.oid] = o
        return o

    # ------------------------------------------------------------------ operations
    def enabled(self, backends):
        ops = []
        for s in SLOTS:
            for k in "sd0zm":
                for be in backends:
                    ops.append(("EVAL", s, k, be))
        for x in SLOTS:
            if x in self.slots:
                oid, view = self.slots[x]
                ops.append(("READ", x))
                ops.append(("DEL", x))
                if view == "T":
                    ops.append(("PICKLE", x))
                if view == "I":
                    ops.append(("NEXT", x))
                for y in SLOTS:
                    if y != x:
                        ops.append(("ALIAS", y, x))
                        if view == "T":
                            ops.append(("ITER", y, x))
                            ops.append(("STRUCT", y, x))
                            if self.objs[oid].kind in "sd":
                                ops.append(("FEED", y, x, self.objs[oid].backend))
        ops.append(("GC",))
        return ops

    def drop(self, slot):
        if slot in self.slots:
            oid, _ = self.slots.pop(slot)
            self.real.pop(slot, None)
            if not any(o == oid for o, _ in self.slots.values()):
                self.zombies.append(self.objs.pop(oid))

    def apply(self, op):
        name = op[0]
        if name == "EVAL":
            _, s, kind, be = op
            self.drop(s)
            if kind == "z":
                t = self.methods[(kind, be)](b=self.zero)
            elif kind == "m":
                t = self.methods[(kind, be)](b=self.mat)
            else:
                t = self.methods[(kind, be)](b=self.b, c=self.c)
            o = self.new_kernel_obj(t, kind, be)
            self.slots[s] = (o.oid, "T")
            self.real[s] = t
        elif name == "ALIAS":
            _, x, y = op
            val = self.real[y]
            ent = self.slots[y]
            self.drop(x)
            self.slots[x] = ent
            self.real[x] = val
        elif name == "STRUCT":
            _, x, y = op
            val = self.real[y].cffi_tensor
            oid = self.slots[y][0]
            self.drop(x)
            self.slots[x] = (oid, "S")
            self.real[x] = val
        elif name == "ITER":
            # an in-flight reader: a partially consumed items() iterator is a user of the result
            _, x, y = op
            it = self.real[y].items()
            oid = self.slots[y][0]
            first = next(it, None)
            self.drop(x)
            if first is not None:
                self.slots[x] = (oid, "I")
                self.real[x] = [it, [first]]
            # an iterator that is already exhausted has released the tensor: it is not a user any more
        elif name == "NEXT":
            it, seen = self.real[op[1]]
            nxt = next(it, None)
            if nxt is not None:
                seen.append(nxt)
                self.check_iter(op[1])
            else:
                self.check_iter(op[1])
                # exhausted: the generator frame is gone and with it its reference - for every name bound to it
                shared = self.real[op[1]]
                for s2 in [k for k, v in self.real.items() if v is shared]:
                    self.drop(s2)
        elif name == "READ":
            pass  # every state check reads every live object
        elif name == "PICKLE":
            _, x = op
            oid, _ = self.slots[x]
            old = self.objs[oid]
            t2 = pickle.loads(pickle.dumps(self.real[x]))
            self.drop(x)
            o = Obj(self.next_oid, old.kind, "p", [], old.image, old.backend)
            self.next_oid += 1
            self.objs[o.oid] = o
            self.slots[x] = (o.oid, "T")
            self.real[x] = t2
        elif name == "FEED":
            _, x, y, be = op
            src = self.real[y]
            kind = self.objs[self.slots[y][0]].kind
            # through the porcelain (evaluate_tensora / evaluate_cffi): the entry point users feed results into;
            # EVAL covers the TensorMethod objects called directly
            ev = self.evaluate[be]
            t = ev("a(i) = b(i) * c(i)", kind, b=src, c=self.two)
            self.drop(x)
            o = self.new_kernel_obj(t, kind, be)
            self.slots[x] = (o.oid, "T")
            self.real[x] = t
        elif name == "DEL":
            self.drop(op[1])
        elif name == "GC":
            gc.collect()
        else:
            raise ValueError(op)

    # ------------------------------------------------------------------ oracle
    def check(self, after_gc, problems):
        from .rt import raw_image

        problems.extend(self.pending_problems)
        self.pending_problems = []
        n = self.shim.verif_double_frees()
        if n != self.double_frees_seen:
            addr = self.shim.verif_last_double_free()
            problems.append(("double-free", f"free() of {hex(addr or 0)}, which was already freed and not handed out "
                                            f"again ({n - self.double_frees_seen} such call(s)); swallowed by the interposer"))
            self.double_frees_seen = n

        for oid, o in self.objs.items():
            for p, n, content, handle in o.addrs:
                q = self.shim.verif_query(handle)
                st, fc, rc = q & 0xFF, (q >> 8) & 0xFF, (q >> 16) & 0xFF
                if st != W_LIVE or fc or rc:
                    problems.append(("freed-while-referenced",
                                     f"array {hex(p)} of a result that is still referenced: state={st} frees={fc} "
                                     f"reallocs={rc}"))
                elif ctypes.string_at(p, n) != content:
                    problems.append(("content-changed", f"array {hex(p)} of a live result changed"))
        # read every live value through the objects the user holds
        for s, (oid, view) in self.slots.items():
            o = self.objs[oid]
            if any(k == "freed-while-referenced" for k, _ in problems):
                break
            if view == "I":
                seen = self.real[s][1]
                want = self.expected_items(o)[: len(seen)]
                if seen != want:
                    problems.append(("read-differs", f"slot {s}: an in-flight items() iterator yielded {seen}, the "
                                                     f"result holds {want}"))
                continue
            t = self.real[s] if view == "T" else self.Tensor(self.real[s])
            if raw_image(t) != o.image:
                problems.append(("read-differs", f"slot {s}: values read back differ from the result"))
        keep = []
        for o in self.zombies:
            done = True
            for p, _n, _c, handle in o.addrs:
                q = self.shim.verif_query(handle)
                st, fc = q & 0xFF, (q >> 8) & 0xFF
                if fc >= 2:
                    problems.append(("double-free", f"array {hex(p)} freed {fc} times"))
                elif st == W_LIVE:
                    done = False
                    if after_gc:
                        problems.append(("leak", f"array {hex(p)} of an unreachable result is still allocated "
                                                 "after gc.collect()"))
            if done:
                for _p, _n, _c, handle in o.addrs:
                    self.shim.verif_forget(handle)
            else:
                keep.append(o)
        self.zombies = [] if after_gc else keep
        if after_gc:
            for o in keep:
                for _p, _n, _c, handle in o.addrs:
                    self.shim.verif_forget(handle)

    def check_iter(self, slot):
        oid, _ = self.slots[slot]
        seen = self.real[slot][1]
        want = self.expected_items(self.objs[oid])[: len(seen)]
        if seen != want:
            self.pending_problems.append(("read-differs", f"slot {slot}: an in-flight items() iterator yielded "
                                                          f"{seen}, the result holds {want}"))

    def expected_items(self, o):
        """(coordinate, value) pairs in storage order, decoded from the recorded raw image."""
        dims, modes, ordering, levels, vals = o.image
        order = len(dims)
        lvl_dims = [dims[k] for k in ordering]
        prefixes = [((), 0)]
        for l in range(order):
            if levels[l] is None:
                d = lvl_dims[l]
                prefixes = [(p + (x,), q * d + x) for p, q in prefixes for x in range(d)]
            else:
                pos, crd = levels[l]
                prefixes = [(p + (crd[k],), k) for p, q in prefixes for k in range(pos[q], pos[q + 1])]
        out = []
        for p, q in prefixes:
            c = [0] * order
            for lev, d in enumerate(ordering):
                c[d] = p[lev]
            out.append((tuple(c), vals[q]))
        return out

    def canonical(self):
        ren = {}
        key = []
        for s in SLOTS:
            if s in self.slots:
                oid, view = self.slots[s]
                o = self.objs[oid]
                key.append((ren.setdefault(oid, len(ren)), view, o.kind, o.origin, o.backend))
            else:
                key.append(None)
        return (tuple(key), bool(self.zombies))

    def teardown(self, problems):
        for s in list(self.slots):
            self.drop(s)
        self.real.clear()
        gc.collect()
        self.check(True, problems)


def run_history(h: Harness, history, problems):
    h.reset()
    for op in history:
        h.apply(tuple(op))
        h.check(op[0] == "GC", problems)
        if problems:
            return


def explore(spec):
    t0 = time.time()
    backends = spec["backends"]
    h = Harness(backends)
    depth = spec["depth"]
    seen = {}
    stats = Counter()
    findings = []
    transitions = 0
    frontier = deque([[]])
    problems = []
    run_history(h, [], problems)
    seen[h.canonical()] = []
    h.teardown(problems)
    part, parts = spec.get("part", 0), spec.get("parts", 1)
    sig_seen = set()
    sample = None
    while frontier:
        hist = frontier.popleft()
        problems = []
        run_history(h, hist, problems)
        ops = h.enabled(backends)
        h.teardown(problems)
        if not hist and parts > 1:
            # work partitioning: this process explores the histories whose first operation is in its share
            ops = [op for k, op in enumerate(ops) if k % parts == part]
        for op in ops:
            problems = []
            new = hist + [list(op)]
            run_history(h, new, problems)
            key = h.canonical() if not problems else None
            h.teardown(problems)
            transitions += 1
            stats[f"op {op[0]}"] += 1
            if problems:
                for kind, what in problems[:2]:
                    sig = (kind, op[0])
                    if sig not in sig_seen or len(findings) < 40:
                        sig_seen.add(sig)
                        findings.append({"props": ["C13"], "signature": {"kind": kind, "last_op": op[0]},
                                         "what": f"history {new}: {what}", "case": {"history": new, "backends": backends}})
                continue
            if key not in seen:
                seen[key] = new
                if len(new) < depth:
                    frontier.append(new)
                if sample is None and len(new) == min(4, depth) and any(o[0] == "STRUCT" for o in new):
                    sample = new
    nontrivial = sum(1 for k in seen if any(e is not None and e[3] == "k" for e in k[0]))
    return {"states": len(seen), "transitions": transitions, "findings": findings, "stats": dict(stats),
            "nontrivial": nontrivial, "sample": sample, "wall": time.time() - t0,
            "freed_arrays_observed": None}


def main():
    spec = json.load(sys.stdin)
    if spec.get("mode") == "replay":
        h = Harness(spec["backends"])
        out = []
        for _ in range(2):
            problems = []
            run_history(h, spec["history"], problems)
            h.teardown(problems)
            out.append(problems)
        json.dump({"problems": out}, sys.stdout)
        return
    json.dump(explore(spec), sys.stdout)


if __name__ == "__main__":
    main()
