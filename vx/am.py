"""AM: an abstract machine (executable semantics with monitors) for tensora's IR.

The semantics is the one both printers (ir_to_c / ir_to_llvm) implement: int32 integers, IEEE
doubles, bool, typed pointers, C block scoping (Branch arms and Loop bodies open a scope, Block
does not), implicit int->double conversion in mixed arithmetic and on stores into double
cells/variables, short-circuit And/Or, Min/Max/BooleanToInteger on integers, malloc/realloc.

Monitors (state invariants checked on every transition):
  bounds, use-after-realloc, NULL dereference, reads of uninitialised cells/locals, stores to or
  reallocs of blocks the kernel does not own (inputs, frozen structure), int32 overflow, typing
  (conditions are bool, indexes are int, comparisons take ints => control flow cannot depend on a
  stored value), C scoping (undeclared / redeclared / shadowed), step budget.
A fatal monitor hit raises Fault(kind, msg).  Non-fatal hits (only: reading an uninitialised
double when `lenient_uninit` is set, shadowing, zero-size realloc) are appended to `events`.

The machine is bound to the implementation by the native conformance harness (vx/nx.py), which
replays the same kernels on the same inputs through gcc, clang and the llvmlite JIT and demands
bit-identical heaps.
"""

from __future__ import annotations

from fractions import Fraction

from tensora.ir import ast as ir
from tensora.ir import types as T

from .poly import Poly

INT_MIN, INT_MAX = -(2**31), 2**31 - 1


class Fault(Exception):
    def __init__(self, kind: str, msg: str):
        super().__init__(f"{kind}: {msg}")
        self.kind = kind
        self.msg = msg


class _Uninit:
    __slots__ = ()

    def __repr__(self):
        return "UNINIT"


UNINIT = _Uninit()


class SparseCells:
    """Cells of a large block (e.g. the 2^20-element default capacity), stored sparsely."""

    __slots__ = ("n", "d")

    def __init__(self, n):
        self.n = n
        self.d = {}

    def __len__(self):
        return self.n

    def __getitem__(self, k):
        if isinstance(k, slice):
            return [self.d.get(i, UNINIT) for i in range(*k.indices(self.n))]
        return self.d.get(k, UNINIT)

    def __setitem__(self, k, v):
        self.d[k] = v

    def __eq__(self, o):
        if isinstance(o, SparseCells):
            return self.n == o.n and self.d == o.d
        if isinstance(o, list):
            return self.n == len(o) and all(self.d.get(i, UNINIT) is o[i] or self.d.get(i, UNINIT) == o[i] for i in range(self.n))
        return NotImplemented


SPARSE_THRESHOLD = 4096


class Block:
    __slots__ = ("id", "kind", "cells", "owner", "freed", "readonly", "norealloc", "label")

    def __init__(self, id, kind, cells, owner, label=""):
        self.id = id
        self.kind = kind  # "int" | "float" | "ptr"
        self.cells = cells
        self.owner = owner  # "input" | "kernel" | "outstruct"
        self.freed = False
        self.readonly = False
        self.norealloc = False
        self.label = label

    def __repr__(self):
        return f"<block {self.id} {self.kind}[{len(self.cells)}] {self.owner} {self.label}>"


class Ptr:
    __slots__ = ("block", "off")

    def __init__(self, block, off=0):
        self.block = block
        self.off = off

    def __eq__(self, o):
        return isinstance(o, Ptr) and self.block is o.block and self.off == o.off

    def __hash__(self):
        return hash((id(self.block), self.off))

    def __repr__(self):
        return "NULL" if self.block is None else f"&{self.block.id}+{self.off}"


NULL = Ptr(None, 0)


class TensorStruct:
    __slots__ = ("name", "dimensions", "indices", "vals", "owner", "frozen")

    def __init__(self, name, dimensions, indices, vals, owner):
        self.name = name
        self.dimensions = dimensions
        self.indices = indices
        self.vals = vals
        self.owner = owner  # "input" | "output"
        self.frozen = False


class _Return(Exception):
    def __init__(self, v):
        self.v = v


def type_kind(ty) -> str:
    if isinstance(ty, T.Integer):
        return "int"
    if isinstance(ty, T.Float):
        return "float"
    if isinstance(ty, T.Boolean):
        return "bool"
    if isinstance(ty, T.Pointer):
        if isinstance(ty.target, T.Tensor):
            return "tensor"
        return "ptr"
    if isinstance(ty, T.Array):
        return "ptr"
    raise Fault("type", f"unsupported type {ty}")


def elem_kind(ty) -> str:
    if isinstance(ty, T.Integer):
        return "int"
    if isinstance(ty, T.Float):
        return "float"
    return "ptr"


def is_int(v) -> bool:
    return type(v) is int


def is_float(v) -> bool:
    return type(v) is float or type(v) is Poly


class Machine:
    def __init__(self, generic=False, budget=200000, lenient_uninit=False, record_access=False,
                 lenient_overflow=False, lenient_redeclare=False):
        self.generic = generic
        # lenient_redeclare: a second declaration of a name in the same scope (invalid C) is recorded as an
        # event and the run continues with the one slot per name that the LLVM back end's hoisting gives it,
        # so that the value and structure oracles still judge what the default back end computes
        self.lenient_redeclare = lenient_redeclare
        self.budget = budget
        self.lenient_uninit = lenient_uninit
        # lenient_overflow: record the int32 overflow as an event and continue with the wrapped
        # value (what the LLVM back end computes), so that value oracles can still judge the run
        self.lenient_overflow = lenient_overflow
        self.blocks: list[Block] = []
        self.steps = 0
        self.loop_iters: dict[int, int] = {}
        self.total_loop_iters = 0
        self.allocs = 0
        self.reallocs = 0
        self.events: list[tuple[str, str]] = []
        self.access = set() if record_access else None
        self.env: dict[str, list] = {}
        self.scopes: list[list] = []
        self._garbage = 0
    # ------------------------------------------------------------------ heap
    def new_block(self, kind, n, owner, init=None, label=""):
        if n < 0:
            raise Fault("alloc-negative", f"allocation of {n} elements")
        if init is not None:
            cells = list(init)
        elif n > SPARSE_THRESHOLD:
            cells = SparseCells(n)
        else:
            cells = [UNINIT] * n
        b = Block(len(self.blocks), kind, cells, owner, label)
        self.blocks.append(b)
        return b

    def fzero(self):
        return Poly.const(0) if self.generic else 0.0

    def fconst(self, v):
        if self.generic:
            return Poly.const(Fraction(v))
        return float(v)

    def load(self, p, i):
        if type(p) is not Ptr:
            raise Fault("type", f"indexing a non-pointer {p!r}")
        b = p.block
        if b is None:
            raise Fault("null", "load through NULL")
        k = p.off + i
        if b.freed:
            raise Fault("use-after-realloc", f"load from freed {b!r}")
        if not (0 <= k < len(b.cells)):
            raise Fault("oob-read", f"load {b!r}[{k}]")
        if self.access is not None:
            self.access.add((b.id, k, "r"))
        v = b.cells[k]
        if v is UNINIT:
            if self.lenient_uninit and b.kind == "float":
                self._garbage += 1
                self.events.append(("uninit-read", f"{b!r}[{k}]"))
                if self.generic:
                    return Poly.var(f"GARBAGE{self._garbage}")
                return float("nan")
            raise Fault("uninit-read", f"load of uninitialised {b!r}[{k}]")
        return v

    def store(self, p, i, v):
        if type(p) is not Ptr:
            raise Fault("type", f"indexing a non-pointer {p!r}")
        b = p.block
        if b is None:
            raise Fault("null", "store through NULL")
        k = p.off + i
        if b.freed:
            raise Fault("use-after-realloc", f"store to freed {b!r}")
        if b.owner == "input" or b.readonly:
            raise Fault("write-foreign", f"store to {b!r}[{k}] which the kernel may not modify")
        if not (0 <= k < len(b.cells)):
            raise Fault("oob-write", f"store {b!r}[{k}]")
        if b.kind == "int":
            if type(v) is not int:
                raise Fault("type", f"store of {v!r} into int array")
        elif b.kind == "float":
            if type(v) is int:
                v = self.fconst(v)
            elif not is_float(v):
                raise Fault("type", f"store of {v!r} into double array")
        else:
            if type(v) is not Ptr:
                raise Fault("type", f"store of {v!r} into pointer array")
        if self.access is not None:
            self.access.add((b.id, k, "w"))
        b.cells[k] = v

    # ----------------------------------------------------------- expressions
    def ev(self, e):
        try:
            f = _DISPATCH_E[type(e)]
        except KeyError:
            raise Fault("type", f"not an expression: {type(e).__name__}") from None
        return f(self, e)

    def _e_variable(self, e):
        cell = self.env.get(e.name)
        if cell is None:
            raise Fault("undeclared", f"variable {e.name}")
        v = cell[1]
        if v is UNINIT:
            raise Fault("uninit-local", f"read of uninitialised local {e.name}")
        if cell[2]:
            # C keeps the outer variable's value across an inner scope that shadowed it; LLVM
            # (hoisted declarations share one slot per name) sees the inner variable's last value
            self.events.append(("shadow-divergence", e.name))
        return v

    def _e_int(self, e):
        v = e.value
        if type(v) is not int or not (INT_MIN <= v <= INT_MAX):
            if self.lenient_overflow and type(v) is int:
                self.events.append(("int-literal-range", f"integer literal {v} does not fit int32"))
                return ((v - INT_MIN) % 2**32) + INT_MIN
            raise Fault("int-literal-range", f"integer literal {v!r} does not fit int32")
        return v

    def _e_float(self, e):
        v = e.value
        if v != v or v in (float("inf"), float("-inf")):
            raise Fault("nonfinite-literal", f"float literal {v!r}")
        return Poly.const(Fraction(v)) if self.generic else float(v)

    def _e_bool(self, e):
        return bool(e.value)

    def _e_index(self, e):
        p = self.ev(e.target)
        i = self.ev(e.index)
        if type(i) is not int:
            raise Fault("type", f"non-integer index {i!r}")
        return self.load(p, i)

    def _e_attr(self, e):
        s = self.ev(e.target)
        if type(s) is not TensorStruct:
            raise Fault("type", "attribute access on a non-tensor")
        if e.attribute not in ("dimensions", "indices", "vals"):
            raise Fault("type", f"unknown attribute {e.attribute}")
        return getattr(s, e.attribute)

    def _arith(self, l, r, op):
        tl, tr = type(l), type(r)
        if tl is int and tr is int:
            v = l + r if op == 0 else l - r if op == 1 else l * r
            if not (INT_MIN <= v <= INT_MAX):
                if self.lenient_overflow:
                    self.events.append(("int-overflow", f"{l} {'+-*'[op]} {r} overflows int32"))
                    return ((v - INT_MIN) % 2**32) + INT_MIN
                raise Fault("int-overflow", f"{l} {'+-*'[op]} {r} overflows int32")
            return v
        if tl is Ptr:
            if op == 0 and tr is int:
                return Ptr(l.block, l.off + r)
            raise Fault("type", "unsupported pointer arithmetic")
        if tl is bool or tr is bool or tr is Ptr or tl is TensorStruct or tr is TensorStruct:
            raise Fault("type", f"arithmetic on {l!r}, {r!r}")
        # mixed or float arithmetic: promote ints
        if tl is int:
            l = self.fconst(l)
        elif not (tl is float or tl is Poly):
            raise Fault("type", f"arithmetic on {l!r}")
        if tr is int:
            r = self.fconst(r)
        elif not (tr is float or tr is Poly):
            raise Fault("type", f"arithmetic on {r!r}")
        return l + r if op == 0 else l - r if op == 1 else l * r

    def _e_add(self, e):
        return self._arith(self.ev(e.left), self.ev(e.right), 0)

    def _e_sub(self, e):
        return self._arith(self.ev(e.left), self.ev(e.right), 1)

    def _e_mul(self, e):
        return self._arith(self.ev(e.left), self.ev(e.right), 2)

    def _e_cmp(self, e):
        l = self.ev(e.left)
        r = self.ev(e.right)
        t = type(e)
        if type(l) is bool and type(r) is bool and t in (ir.Equal, ir.NotEqual):
            return (l == r) if t is ir.Equal else (l != r)
        if type(l) is not int or type(r) is not int:
            raise Fault("type", f"comparison of non-integers {l!r}, {r!r}")
        if t is ir.Equal:
            return l == r
        if t is ir.NotEqual:
            return l != r
        if t is ir.LessThan:
            return l < r
        if t is ir.GreaterThan:
            return l > r
        if t is ir.LessThanOrEqual:
            return l <= r
        return l >= r

    def _e_and(self, e):
        l = self.ev(e.left)
        if type(l) is not bool:
            raise Fault("type", f"&& on non-bool {l!r}")
        if not l:
            return False
        r = self.ev(e.right)
        if type(r) is not bool:
            raise Fault("type", f"&& on non-bool {r!r}")
        return r

    def _e_or(self, e):
        l = self.ev(e.left)
        if type(l) is not bool:
            raise Fault("type", f"|| on non-bool {l!r}")
        if l:
            return True
        r = self.ev(e.right)
        if type(r) is not bool:
            raise Fault("type", f"|| on non-bool {r!r}")
        return r

    def _e_minmax(self, e):
        l = self.ev(e.left)
        r = self.ev(e.right)
        if type(l) is not int or type(r) is not int:
            raise Fault("type", f"min/max of non-integers {l!r}, {r!r}")
        return max(l, r) if type(e) is ir.Max else min(l, r)

    def _e_b2i(self, e):
        v = self.ev(e.expression)
        if type(v) is not bool:
            raise Fault("type", f"bool-to-int of non-bool {v!r}")
        return int(v)

    def _e_alloc(self, e):
        n = self.ev(e.n_elements)
        if type(n) is not int:
            raise Fault("type", "non-integer allocation size")
        self.allocs += 1
        return Ptr(self.new_block(elem_kind(e.element_type), n, "kernel"), 0)

    def _e_realloc(self, e):
        old = self.ev(e.old)
        n = self.ev(e.n_elements)
        if type(n) is not int:
            raise Fault("type", "non-integer allocation size")
        if type(old) is not Ptr:
            raise Fault("type", "realloc of a non-pointer")
        self.reallocs += 1
        k = elem_kind(e.element_type)
        if old.block is None:
            return Ptr(self.new_block(k, n, "kernel"), 0)
        b = old.block
        if b.freed:
            raise Fault("use-after-realloc", f"realloc of freed {b!r}")
        if b.owner != "kernel" or b.readonly or b.norealloc:
            raise Fault("realloc-foreign", f"realloc of {b!r} which the kernel may not resize")
        if old.off != 0:
            raise Fault("realloc-interior", "realloc of an interior pointer")
        if b.kind != k:
            raise Fault("type", f"realloc of {b.kind} array as {k}")
        if n == 0:
            self.events.append(("realloc-zero", f"{b!r}"))
        nb = self.new_block(k, n, "kernel", label=b.label)
        m = min(n, len(b.cells))
        if type(b.cells) is SparseCells or type(nb.cells) is SparseCells:
            src = b.cells.d.items() if type(b.cells) is SparseCells else enumerate(b.cells)
            for i, v in src:
                if i < m and v is not UNINIT:
                    nb.cells[i] = v
        else:
            nb.cells[:m] = b.cells[:m]
        b.freed = True
        return Ptr(nb, 0)

    # ------------------------------------------------------------ statements
    def _coerce(self, kind, v, what):
        tv = type(v)
        if kind == "int":
            if tv is not int:
                raise Fault("type", f"assigning {v!r} to int {what}")
        elif kind == "float":
            if tv is int:
                return self.fconst(v)
            if not (tv is float or tv is Poly):
                raise Fault("type", f"assigning {v!r} to double {what}")
        elif kind == "bool":
            if tv is not bool:
                raise Fault("type", f"assigning {v!r} to bool {what}")
        elif kind == "ptr":
            if tv is not Ptr:
                raise Fault("type", f"assigning {v!r} to pointer {what}")
        elif kind == "tensor":
            if tv is not TensorStruct:
                raise Fault("type", f"assigning {v!r} to tensor {what}")
        return v

    def _declare(self, name, ty):
        scope = self.scopes[-1]
        for n, _ in scope:
            if n == name:
                if self.lenient_redeclare:
                    self.events.append(("redeclared", name))
                    return self.env[name]
                raise Fault("redeclared", f"variable {name} redeclared in the same scope")
        prev = self.env.get(name)
        scope.append((name, prev))
        cell = [type_kind(ty), UNINIT, False]
        self.env[name] = cell
        return cell

    def _push(self):
        self.scopes.append([])

    def _pop(self):
        for name, prev in reversed(self.scopes.pop()):
            if prev is None:
                del self.env[name]
            else:
                inner = self.env[name]
                if inner[0] != prev[0] or (inner[1] is not UNINIT and inner[1] != prev[1]):
                    prev[2] = True
                self.env[name] = prev

    def _assign_to(self, target, v):
        t = type(target)
        if t is ir.Variable:
            cell = self.env.get(target.name)
            if cell is None:
                raise Fault("undeclared", f"variable {target.name}")
            cell[1] = self._coerce(cell[0], v, target.name)
            cell[2] = False
        elif t is ir.ArrayIndex:
            p = self.ev(target.target)
            i = self.ev(target.index)
            if type(i) is not int:
                raise Fault("type", f"non-integer index {i!r}")
            self.store(p, i, v)
        elif t is ir.AttributeAccess:
            s = self.ev(target.target)
            if type(s) is not TensorStruct:
                raise Fault("type", "attribute store on a non-tensor")
            if s.owner == "input" or s.frozen:
                raise Fault("write-foreign", f"attribute store {s.name}->{target.attribute}")
            if target.attribute not in ("indices", "vals", "dimensions"):
                raise Fault("type", f"unknown attribute {target.attribute}")
            if type(v) is not Ptr:
                raise Fault("type", "attribute store of a non-pointer")
            if target.attribute != "vals":
                raise Fault("write-foreign", f"attribute store {s.name}->{target.attribute}")
            setattr(s, target.attribute, v)
        else:
            raise Fault("type", f"not assignable: {t.__name__}")

    def ex(self, s):
        self.steps += 1
        if self.steps > self.budget:
            raise Fault("budget", f"step budget {self.budget} exceeded")
        f = _DISPATCH_S.get(type(s))
        if f is None:
            if isinstance(s, ir.Expression):
                self.ev(s)
                return
            raise Fault("type", f"not a statement: {type(s).__name__}")
        f(self, s)

    def _s_block(self, s):
        for x in s.statements:
            self.ex(x)

    def _s_decl(self, s):
        self._declare(s.name.name, s.type)

    def _s_declassign(self, s):
        v = self.ev(s.value)
        cell = self._declare(s.target.name.name, s.target.type)
        cell[1] = self._coerce(cell[0], v, s.target.name.name)

    def _s_assign(self, s):
        v = self.ev(s.value)
        self._assign_to(s.target, v)

    def _s_branch(self, s):
        c = self.ev(s.condition)
        if type(c) is not bool:
            raise Fault("type", f"branch on non-bool {c!r}")
        self._push()
        try:
            self.ex(s.if_true if c else s.if_false)
        finally:
            self._pop()

    def _s_loop(self, s):
        key = id(s)
        while True:
            self.steps += 1
            if self.steps > self.budget:
                raise Fault("budget", f"step budget {self.budget} exceeded")
            c = self.ev(s.condition)
            if type(c) is not bool:
                raise Fault("type", f"loop on non-bool {c!r}")
            if not c:
                break
            self.loop_iters[key] = self.loop_iters.get(key, 0) + 1
            self.total_loop_iters += 1
            self._push()
            try:
                self.ex(s.body)
            finally:
                self._pop()

    def _s_return(self, s):
        raise _Return(self.ev(s.value))

    # ----------------------------------------------------------------- calls
    def call(self, fn: ir.FunctionDefinition, args):
        self.env = {}
        self.scopes = [[]]
        if len(fn.parameters) != len(args):
            raise Fault("type", "wrong number of arguments")
        for p, a in zip(fn.parameters, args, strict=True):
            cell = self._declare(p.name.name, p.type)
            cell[1] = self._coerce(cell[0], a, p.name.name)
        try:
            self.ex(fn.body)
        except _Return as r:
            rk = type_kind(fn.return_type)
            return self._coerce(rk, r.v, "return value")
        raise Fault("no-return", "function fell off its end")


_DISPATCH_E = {
    ir.Variable: Machine._e_variable,
    ir.IntegerLiteral: Machine._e_int,
    ir.FloatLiteral: Machine._e_float,
    ir.BooleanLiteral: Machine._e_bool,
    ir.ArrayIndex: Machine._e_index,
    ir.AttributeAccess: Machine._e_attr,
    ir.Add: Machine._e_add,
    ir.Subtract: Machine._e_sub,
    ir.Multiply: Machine._e_mul,
    ir.Equal: Machine._e_cmp,
    ir.NotEqual: Machine._e_cmp,
    ir.GreaterThan: Machine._e_cmp,
    ir.LessThan: Machine._e_cmp,
    ir.GreaterThanOrEqual: Machine._e_cmp,
    ir.LessThanOrEqual: Machine._e_cmp,
    ir.And: Machine._e_and,
    ir.Or: Machine._e_or,
    ir.Max: Machine._e_minmax,
    ir.Min: Machine._e_minmax,
    ir.BooleanToInteger: Machine._e_b2i,
    ir.ArrayAllocate: Machine._e_alloc,
    ir.ArrayReallocate: Machine._e_realloc,
}
_DISPATCH_S = {
    ir.Block: Machine._s_block,
    ir.Declaration: Machine._s_decl,
    ir.DeclarationAssignment: Machine._s_declassign,
    ir.Assignment: Machine._s_assign,
    ir.Branch: Machine._s_branch,
    ir.Loop: Machine._s_loop,
    ir.Return: Machine._s_return,
}
