"""Tiered program spaces of the kernel explorer (shared by C01-C05, C07, C16).

Every space is an explicit, finite alphabet; a check enumerates it completely.
"""

from __future__ import annotations

from . import space

LITS_QUICK = ("0", "2", "2.5")
LITS_THOROUGH = ("0", "1", "2", "2.5", "0.0")


def product_of_partial_sums(prog):
    """A product whose two factors are sums that each have a term with and a term without some
    contracted index: the shape in which a contraction must be distributed over the product."""
    from .refmodel import term_indexes, terms

    tgt = set(prog[1])

    def walk(t):
        if t[0] in ("t", "n"):
            return False
        if t[0] == "*":
            lt, rt = terms(t[1]), terms(t[2])
            idx = {i for _, f in lt + rt for i in term_indexes(f)} - tgt
            for k in idx:
                lh = [k in term_indexes(f) for _, f in lt]
                rh = [k in term_indexes(f) for _, f in rt]
                if any(lh) and not all(lh) and any(rh) and not all(rh):
                    return True
        return walk(t[1]) or walk(t[2])

    return walk(prog[2])


_POPS = None


def products_of_partial_sums():
    global _POPS
    if _POPS is None:
        _POPS = [p for p in space.enumerate_programs(4, 3, min_leaves=4, repeats=False, ops="+-*")
                 if product_of_partial_sums(p)]
        # ... and the 5-leaf ones with a scalar target (nested signs such as (b() - (c() - d(i))) * (e() + f(i)))
        _POPS += [p for p in space.enumerate_programs(5, 2, min_leaves=5, repeats=False, ops="+-*", target_orders=(0,))
                  if product_of_partial_sums(p)]
    return _POPS


def rename(prog, tmap, imap):
    def rec(t):
        if t[0] == "t":
            return ("t", tmap.get(t[1], t[1]), tuple(imap.get(i, i) for i in t[2]))
        if t[0] == "n":
            return t
        return (t[0], rec(t[1]), rec(t[2]))

    return (tmap.get(prog[0], prog[0]), tuple(imap.get(i, i) for i in prog[1]), rec(prog[2]))


def renamed_base():
    """The base space under the reversed naming (target z, operands y x w, indexes i <-> k): names
    reach the code only through dict order, set hashing and sorting, which this permutes."""
    tmap = {"a": "z", "b": "y", "c": "x", "d": "w", "e": "v"}
    imap = {"i": "k", "k": "i"}
    return [rename(p, tmap, imap) for p in space.enumerate_programs(2, 3)]


def classics():
    """Everyday programs that are larger than the enumerated bounds: matrix product, chained
    contraction, sum of two contractions (buckets below sparse output levels, nested contractions)."""
    T = lambda n, *idx: ("t", n, tuple(idx))  # noqa: E731
    return [
        ("a", ("i", "j"), ("*", T("b", "i", "k"), T("c", "k", "j"))),
        ("a", ("i",), ("*", ("*", T("b", "i", "j"), T("c", "j", "k")), T("d", "k"))),
        ("a", ("i",), ("+", ("*", T("b", "i", "j"), T("c", "j")), ("*", T("d", "i", "k"), T("e", "k")))),
        # one tensor used twice under different parent positions of the same loop: Gram product and matrix square
        ("a", ("i", "k"), ("*", T("b", "i", "j"), T("b", "k", "j"))),
        ("a", ("i", "k"), ("*", T("b", "i", "j"), T("b", "j", "k"))),
    ]


def single_index_merges(leaves=4):
    """Every tree over `leaves` distinct vectors of one index written to a vector: a(i) = (b(i) + c(i)) * d(i) + e(i).
    These are the programs whose merge lattice has many sub-graphs over one index (order of the merge loops)."""
    progs = space.enumerate_programs(leaves, leaves + 1, min_leaves=leaves, repeats=False, ops="+*", target_orders=(1,),
                                     max_order=1, min_total_order=leaves + 1)
    return [p for p in progs if all(l[2] == ("i",) for l in space.tree_leaves(p[2]))]


def dedupe(progs):
    seen = set()
    out = []
    for p in progs:
        if p not in seen:
            seen.add(p)
            out.append(p)
    return out


def programs(tier: str, flavour: str = "full"):
    """flavour: 'light' < 'full' < 'wide'.  (tier is kept for the callers' convenience: a check picks
    one flavour for its quick tier and the next larger one for its thorough tier.)"""
    P = space.enumerate_programs
    if flavour == "light":
        progs = P(2, 3) + P(2, 4, min_total_order=4, repeats=False, ops="+*") + P(3, 2, ops="+*", min_leaves=3)
        progs += P(2, 2, literals=("2",), min_leaves=2, repeats=False)
        progs += classics()
        progs += single_index_merges()
        # an order-3 copy and a cyclic transpose: the only order-3 sparse outputs of this space
        progs += [("a", ("i", "j", "k"), ("t", "b", ("i", "j", "k"))), ("a", ("i", "j", "k"), ("t", "b", ("k", "i", "j")))]
    elif flavour == "full":
        progs = P(2, 4)
        progs += P(3, 3, min_leaves=3, repeats=False)
        progs += P(2, 3, literals=LITS_QUICK, min_leaves=2, repeats=False)
        progs += P(3, 2, literals=("2",), min_leaves=3, repeats=False, ops="+*")
        # order-3 copies / transposes: the only programs of this space with 3-level buckets
        progs += P(1, 6, min_total_order=6)
        # 4-leaf products of two sums, each with a term that lacks a contracted index (128 programs)
        progs += products_of_partial_sums()
        progs += renamed_base()
        progs += classics()
        progs += single_index_merges()
    else:
        progs = P(2, 5)
        progs += P(3, 4, min_leaves=3)
        progs += P(2, 6, min_total_order=6, repeats=False, ops="+*")
        progs += P(4, 3, min_leaves=4, repeats=False, ops="+*")
        progs += P(2, 4, literals=LITS_THOROUGH, min_leaves=2)
        progs += P(3, 3, literals=("2", "2.5"), min_leaves=3, repeats=False)
        progs += P(1, 6, min_total_order=6)
        progs += products_of_partial_sums()
        progs += renamed_base()
        progs += classics()
        progs += single_index_merges() + single_index_merges(5)
    # literals whose int32 lowering overflows: 65536 * 65536, 2^32 (the shortcut in identifiable_expression/_to_ir.py)
    progs += P(3, 1, literals=("65536",), min_leaves=3, ops="*", repeats=False, target_orders=(0, 1))
    progs += P(2, 1, literals=("4294967296", "99999999999"), min_leaves=2, ops="*+", repeats=False, target_orders=(0, 1))
    # programs made only of literals are excluded here (no operand to enumerate); C08 covers them
    progs = [p for p in progs if any(l[0] == "t" for l in space.tree_leaves(p[2]))]
    return dedupe(progs)


def describe(tier, flavour):
    return {
        "light": "the 40 four-leaf +/* trees over vectors of one index (merge lattices); an order-3 copy and a cyclic transpose; matrix product, Gram product, matrix square, chained contraction and sum of two contractions in all formats; L<=2,S<=3; L=2,S=4 (+,*; no repeats); L=3,S<=2 (+,*); literal 2 with L=2,S<=2; int32-overflowing literals",
        "full": "the 40 four-leaf +/* trees over vectors of one index (merge lattices); matrix product, Gram product, matrix square, chained contraction and sum of two contractions in all formats; L<=2,S<=4 all shapes incl. repeated tensors; L=3,S<=3; literals {0,2,2.5} with L<=2,S<=3 and {2} with "
                "L=3,S<=2; all order-3 copies/transposes (L=1,S=6); the 128 four-leaf and 448 five-leaf products of partial sums "
                "(b() + c(i)) * (d() + e(i)); the L<=2,S<=3 space again under a reversed naming (z = y.., i<->k); "
                "int32-overflowing literals",
        "wide": "four- and five-leaf +/* trees over vectors of one index; L<=2,S<=5; L=3,S<=4; L=2,S=6 (+,*); L=4,S<=3 (+,*); literals {0,1,2,2.5,0.0} L<=2,S<=4; {2,2.5} "
                "L=3,S<=3; order-3 copies/transposes; products of partial sums; renamed base space; int32-overflowing "
                "literals",
    }[flavour]
