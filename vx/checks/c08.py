"""C08 - kernel generation is total: code, or one of the documented refusals."""

from __future__ import annotations

import itertools
import json
import os
import re
import subprocess
import time
from collections import Counter

from .. import kspace, space
from ..common import cap_findings, too_many, BUILD_DIR, Run, TimeLimit, rotate, run_pool
from ..tensors import all_formats, fmt_str, parse_fmt

REQUEST_LIMIT = 20.0
KIND_NAMES = ("assemble", "compute", "evaluate")

IDENTIFIER_CLASSES = {
    "plain": ["x", "X9", "q" * 40],
    "c-keyword": ["int", "while", "return", "restrict", "double", "if", "for"],
    "libc": ["malloc", "realloc", "free"],
    "kernel-name": ["evaluate", "compute", "assemble", "main"],
    "c-constant": ["true", "false", "NULL", "bool"],
}


def _f(kind, what, case, **sig):
    return {"props": ["C08"], "signature": {"kind": kind, **sig}, "what": what, "case": case}


def raise_site(exc):
    tb = exc.__traceback__
    last = None
    while tb is not None:
        last = tb
        tb = tb.tb_next
    return last.tb_frame.f_code.co_qualname if last else "?"


def documented():
    from tensora.desugar import DiagonalAccessError, NoKernelFoundError

    return (DiagonalAccessError, NoKernelFoundError)


def count_definitions(text, kind):
    """How often the C text defines the kernel `kind` (an unindented '<type> kind(' line)."""
    return len(re.findall(rf"^[A-Za-z_][\w \t\*]*?[ \t\*]{kind}\(", text, flags=re.M))


def request(problem, kinds, language, case, findings, stats):
    """One generate_code request. Returns the text or None."""
    from returns.result import Failure, Success

    from tensora.generate import generate_code

    t = time.time()
    try:
        with TimeLimit(REQUEST_LIMIT, "generate_code"):
            r = generate_code(problem, kinds, language)
    except TimeoutError as e:
        findings.append(_f("hang", f"generate_code did not finish: {e}", case))
        return None
    except BaseException as e:  # noqa: BLE001
        stats[f"raised {type(e).__name__}"] += 1
        findings.append(_f("generator-crash", f"generate_code raised {type(e).__name__}: {e} (at {raise_site(e)})",
                           case, exception=type(e).__name__, site=raise_site(e), language=str(language),
                           **case.get("sig", {})))
        return None
    stats["requests"] += 1
    if isinstance(r, Success):
        text = r.unwrap()
        if not isinstance(text, str):
            findings.append(_f("result-type", f"Success holds {type(text).__name__}", case))
            return None
        stats["code returned"] += 1
        stats["max request seconds x1000"] = max(stats["max request seconds x1000"], int((time.time() - t) * 1000))
        return text
    if isinstance(r, Failure):
        e = r.failure()
        if isinstance(e, documented()):
            stats[f"refused {type(e).__name__}"] += 1
        else:
            findings.append(_f("undocumented-refusal", f"Failure({type(e).__name__}): {e}", case,
                               exception=type(e).__name__))
        return None
    findings.append(_f("result-type", f"generate_code returned {type(r).__name__}", case))
    return None


def verify_llvm(text, case, findings, stats):
    import llvmlite.binding as llvm

    try:
        m = llvm.parse_assembly(text)
        m.verify()
        stats["llvm modules verified"] += 1
    except Exception as e:  # noqa: BLE001
        findings.append(_f("toolchain-reject", f"LLVM module does not verify: {str(e)[:300]}", case, backend="llvm",
                           **case.get("sig", {})))


C_HEADER = None


def c_header():
    global C_HEADER
    if C_HEADER is None:
        from tensora.compile._cffi_ownership import taco_type_header
        from tensora.compile._compile_cffi import taco_define_header

        C_HEADER = "#include <stdint.h>\n#include <stdlib.h>\n" + taco_define_header + taco_type_header + "\n"
    return C_HEADER


def syntax_check_c(texts, findings, stats, tag):
    """gcc -fsyntax-only on a batch of returned C texts (functions renamed per request)."""
    if not texts:
        return
    d = os.path.join(BUILD_DIR, "c08")
    os.makedirs(d, exist_ok=True)
    path = os.path.join(d, f"{os.getpid()}_{tag}.c")
    parts = [c_header()]
    line_owner = []
    nlines = c_header().count("\n")
    for k, (text, case) in enumerate(texts):
        # rename the kernel definitions (unindented "<type> <name>(" lines), whatever the return type is spelt like
        body = re.sub(r"^([A-Za-z_][\w \t\*]*?[ \t\*])(evaluate|assemble|compute)\(", rf"\g<1>\g<2>_{k}(", text, flags=re.M)
        parts.append(body + "\n")
        n = body.count("\n") + 1
        line_owner.append((nlines + 1, nlines + n, k))
        nlines += n
    with open(path, "w") as f:
        f.write("".join(parts))
    p = subprocess.run(["gcc", "-std=c99", "-fsyntax-only", "-Werror=implicit-function-declaration",
                        "-Werror=int-conversion", "-Werror=incompatible-pointer-types", "-Wno-unused", path],
                       capture_output=True, text=True)
    if p.returncode == 0:
        stats["C texts accepted by gcc"] += len(texts)
    else:
        bad = {}
        for m in re.finditer(r":(\d+):\d+: error: ([^\n]*)", p.stderr):
            ln = int(m.group(1))
            for lo, hi, k in line_owner:
                if lo <= ln <= hi:
                    bad.setdefault(k, m.group(2))
        if not bad:
            bad[0] = p.stderr[:300]
        stats["C texts accepted by gcc"] += len(texts) - len(bad)
        for k, msg in bad.items():
            case = texts[k][1]
            findings.append(_f("toolchain-reject", f"gcc rejects the emitted C: {msg}", case, backend="gcc",
                               **case.get("sig", {})))
    try:
        os.remove(path)
    except OSError:
        pass


def work_space(unit):
    """generate_code over a program x a slice of its format combinations."""
    from tensora.generate import Language
    from tensora.kernel_type import KernelType
    from tensora.problem import Problem

    t0 = time.time()
    prog = space.prog_from_json(unit["prog"])
    asg = space.to_assignment(prog)
    names, combos = space.format_combos(prog)
    combos = list(combos)[unit["start"] : unit["stop"]]
    stats = Counter()
    findings = []
    ctexts = []
    samples = []
    K = {k: KernelType[k] for k in KIND_NAMES}
    all3 = [K["assemble"], K["compute"], K["evaluate"]]
    subsets = []
    if unit["subsets"]:
        for r in (1, 2, 3):
            for sub in itertools.permutations(KIND_NAMES, r):
                subsets.append([K[k] for k in sub])
        subsets.append([K["evaluate"], K["evaluate"]])
    for combo in combos:
        fmts = dict(zip(names, combo, strict=True))
        case = {"assignment": asg.deparse(), "program": unit["prog"], "formats": space.fmts_json(names, fmts)}
        try:
            problem = Problem(asg, fmts)
        except Exception as e:  # noqa: BLE001
            findings.append(_f("problem-raises", f"Problem(...) raised {type(e).__name__}", case))
            continue
        text = request(problem, all3, Language.c, {**case, "kinds": list(KIND_NAMES), "language": "c"}, findings, stats)
        if text is not None:
            ctexts.append((text, {**case, "language": "c"}))
            if not all(count_definitions(text, k) == 1 for k in KIND_NAMES):
                findings.append(_f("missing-function", "C text does not define each requested kernel once", case))
        ll = request(problem, all3, Language.llvm, {**case, "kinds": list(KIND_NAMES), "language": "llvm"}, findings, stats)
        if ll is not None:
            verify_llvm(ll, {**case, "language": "llvm"}, findings, stats)
        if (text is None) != (ll is None):
            findings.append(_f("language-disagreement", "one language returned code, the other did not", case))
        for sub in subsets:
            kn = [k.name for k in sub]
            t2 = request(problem, sub, Language.c, {**case, "kinds": kn, "language": "c"}, findings, stats)
            if (t2 is None) != (text is None):
                findings.append(_f("kind-disagreement", f"kinds {kn} and the full set disagree on code vs refusal", case))
            elif t2 is not None:
                for k in set(kn):
                    if count_definitions(t2, k) != kn.count(k):
                        findings.append(_f("missing-function", f"kinds {kn}: {k} defined {count_definitions(t2, k)} times", case))
        if text is not None and len(samples) < 1:
            samples.append({**case, "c_lines": text.count("\n") + 1})
        if too_many(findings):
            break
    syntax_check_c(ctexts, findings, stats, f"s{unit['start']}")
    return {"stats": dict(stats), "findings": cap_findings(findings), "samples": samples, "wall": time.time() - t0}


def rename_prog(prog, tmap, imap):
    def rec(t):
        if t[0] == "t":
            return ("t", tmap.get(t[1], t[1]), tuple(imap.get(i, i) for i in t[2]))
        if t[0] == "n":
            return t
        return (t[0], rec(t[1]), rec(t[2]))

    return (tmap.get(prog[0], prog[0]), tuple(imap.get(i, i) for i in prog[1]), rec(prog[2]))


def work_special(unit):
    """Diagonal access, identifier spellings, literal-only programs, CLI behaviour."""
    from returns.result import Success
    from typer.testing import CliRunner

    from tensora.cli import app
    from tensora.expression import parse_assignment
    from tensora.format import parse_format
    from tensora.generate import Language
    from tensora.kernel_type import KernelType
    from tensora.problem import make_problem

    t0 = time.time()
    stats = Counter()
    findings = []
    ctexts = []
    samples = []
    all3 = [KernelType.assemble, KernelType.compute, KernelType.evaluate]
    what = unit["what"]

    def gen_all(text, fmt_strings, sig=None, extra=None):
        case = {"assignment": text, "formats": fmt_strings, **(extra or {})}
        if sig:
            case["sig"] = sig
        pa = parse_assignment(text)
        if not isinstance(pa, Success):
            stats["not an assignment"] += 1
            return
        mp = make_problem(pa.unwrap(), {n: parse_format(f).unwrap() for n, f in fmt_strings.items()})
        if not isinstance(mp, Success):
            stats["problem refused (documented)"] += 1
            return
        for lang in (Language.c, Language.llvm):
            t = request(mp.unwrap(), all3, lang, {**case, "language": str(lang)}, findings, stats)
            if t is not None:
                if lang == Language.c:
                    ctexts.append((t, {**case, "language": "c"}))
                else:
                    verify_llvm(t, {**case, "language": "llvm"}, findings, stats)

    if what == "diagonal":
        for text in ["a(i) = b(i,i)", "a() = b(i,i)", "a(i,j) = b(i,i,j)", "a(i) = b(i,j,i) + c(i)", "a(i) = b(i) * c(i,i)",
                     "a(i,i) = b(i)", "a(i,i) = b(i,i)", "a(i,j,i) = b(i,j)"]:
            for f in ("d", "s"):
                pa = parse_assignment(text)
                if isinstance(pa, Success):
                    orders = pa.unwrap().variable_orders()
                    gen_all(text, {n: f * o for n, o in orders.items()})
    elif what == "literal-only":
        for rhs in ["0", "1", "2.5", "2 * 3", "1 + 2.5", "0 * 7", "1e5", "2 - 2", "1e999", "4294967296", "65536 * 65536",
                    "99999999999 * 2", "0.0"]:
            for tgt, fm in (("a()", {"a": ""}), ("a(i)", {"a": "d"}), ("a(i)", {"a": "s"}), ("a(i,j)", {"a": "ds"})):
                sig = {"nonfinite_literal": True} if rhs == "1e999" else None
                gen_all(f"{tgt} = {rhs}", fm, sig)
        for text, fm in [("a(i) = 1e999 * b(i)", {"a": "d", "b": "d"}), ("a(i) = b(i) + 1e999", {"a": "d", "b": "s"})]:
            gen_all(text, fm, {"nonfinite_literal": True})
    elif what == "identifiers":
        base_progs = [("T", ("I",), ("*", ("t", "U", ("I", "J")), ("t", "V", ("J",)))),
                      ("T", ("I",), ("+", ("t", "U", ("I",)), ("t", "V", ("I",))))]
        for cls, spellings in IDENTIFIER_CLASSES.items():
            for sp in spellings:
                for prog in base_progs:
                    for role in ("target", "operand", "index"):
                        tmap, imap = {}, {}
                        if role == "target":
                            tmap = {"T": sp}
                        elif role == "operand":
                            tmap = {"U": sp}
                        else:
                            imap = {"J" if "J" in str(prog) else "I": sp}
                        p2 = rename_prog(prog, tmap, imap)
                        text = space.prog_str(p2)
                        orders = space.tensor_orders(p2)
                        for f in ("d", "s"):
                            gen_all(text, {n: f * o for n, o in orders.items()},
                                    {"identifier_class": cls}, {"identifier": sp, "role": role})
    elif what == "cli":
        runner = CliRunner()
        progs = [space.prog_from_json(p) for p in unit["progs"]]
        for prog in progs:
            text = space.prog_str(prog)
            names, combos = space.format_combos(prog)
            combos = list(combos)
            pick = combos[:: max(1, len(combos) // unit["formats_per_prog"])]
            for combo in pick:
                fmts = dict(zip(names, combo, strict=True))
                flags_all = [(n, fmts[n].deparse()) for n in names]
                # dense formats may be omitted; flags may come in any order
                variants = [flags_all, list(reversed(flags_all)),
                            [(n, f) for n, f in flags_all if set(f) - set("d0123456789")]]
                expect = None
                for lang in ("c", "llvm"):
                    from tensora.generate import generate_code as gc
                    from tensora.problem import Problem

                    try:
                        lib = gc(Problem(space.to_assignment(prog), fmts),
                                 [KernelType.evaluate], Language[lang])
                    except BaseException as e:  # noqa: BLE001
                        lib = e
                    for flags in variants:
                        args = [text]
                        for n, f in flags:
                            args += ["-f", f"{n}:{f}"]
                        args += ["-t", "evaluate", "-l", lang]
                        case = {"argv": args}
                        stats["cli invocations"] += 1
                        try:
                            with TimeLimit(REQUEST_LIMIT, "cli"):
                                res = runner.invoke(app, args, catch_exceptions=False)
                        except BaseException as e:  # noqa: BLE001
                            findings.append(_f("cli-traceback", f"CLI raised {type(e).__name__}: {e} (at {raise_site(e)})",
                                               case, exception=type(e).__name__, site=raise_site(e)))
                            continue
                        if isinstance(lib, Success):
                            if res.exit_code != 0 or res.stdout != lib.unwrap() + "\n":
                                findings.append(_f("cli-differs", f"CLI exit {res.exit_code}; stdout differs from the "
                                                   "library text", case))
                            else:
                                stats["cli == library"] += 1
                        elif isinstance(lib, BaseException):
                            pass  # already reported by the library sweep
                        else:
                            if res.exit_code != 1 or "Traceback" in res.output:
                                findings.append(_f("cli-exit", f"library refused but CLI exit code {res.exit_code}", case))
                            else:
                                stats["cli refusals with exit 1"] += 1
        # front-end errors: exit code 1 and a message, never a traceback
        for args in (["a(i) = "], ["a(i) = b(i)", "-f", "b:q"], ["a(i) = b(i)", "-f", "b:d1"], ["a(i) = b(i)", "-f", "c:d"],
                     ["a(i) = b(i)", "-f", "b:dd"], ["a(i) = b(i)", "-f", "b:d", "-f", "b:s"], ["a(i) = a(i)"],
                     ["a(i) = b(i) + b(i,j)"], ["a(i) = i(i)"], ["a(i) = b(i)", "-f", "b"], ["a(i) = b(i)", "-f", ":d"],
                     ["a(i) = b(i,i)"], ["a(i) = b(j)", "-f", "a:s", "-f", "b:s", "-t", "assemble"], [""], ["a(i) = b(i)", "-f", "b:s0s0"]):
            stats["cli invocations"] += 1
            try:
                res = runner.invoke(app, args, catch_exceptions=False)
            except BaseException as e:  # noqa: BLE001
                findings.append(_f("cli-traceback", f"CLI raised {type(e).__name__}: {e}", {"argv": args},
                                   exception=type(e).__name__, site=raise_site(e)))
                continue
            if res.exit_code not in (0, 1) or "Traceback" in res.output:
                findings.append(_f("cli-exit", f"exit code {res.exit_code}: {res.output[:200]}", {"argv": args}))
            else:
                stats[f"cli front-end exit {res.exit_code}"] += 1
        # -o writes exactly the library text
        out = os.path.join(BUILD_DIR, f"c08_{os.getpid()}.out")
        os.makedirs(BUILD_DIR, exist_ok=True)
        res = runner.invoke(app, ["a(i) = b(i,j) * c(j)", "-f", "b:ds", "-o", out, "-t", "evaluate"], catch_exceptions=False)
        res2 = runner.invoke(app, ["a(i) = b(i,j) * c(j)", "-f", "b:ds", "-t", "evaluate"], catch_exceptions=False)
        try:
            with open(out) as f:
                body = f.read()
            if res.exit_code != 0 or body + "\n" != res2.stdout:
                findings.append(_f("cli-differs", "-o file differs from stdout text", {"argv": "-o"}))
            os.remove(out)
        except OSError as e:
            findings.append(_f("cli-differs", f"-o file not written: {e}", {"argv": "-o"}))
    elif what == "tensor_method":
        from tensora import tensor_method
        from tensora.compile import BackendCompiler, BroadcastTargetIndexError

        for text, fm in unit["requests"]:
            for backend in (BackendCompiler.llvm, BackendCompiler.cffi) if unit["cffi"] else (BackendCompiler.llvm,):
                case = {"assignment": text, "formats": fm, "backend": backend.name}
                stats["tensor_method requests"] += 1
                try:
                    with TimeLimit(120, "tensor_method"):
                        tensor_method(text, fm, backend)
                    stats["tensor_method built"] += 1
                except (*documented(), BroadcastTargetIndexError) as e:
                    stats[f"tensor_method refused {type(e).__name__}"] += 1
                except BaseException as e:  # noqa: BLE001
                    findings.append(_f("generator-crash", f"tensor_method raised {type(e).__name__}: {e} (at {raise_site(e)})",
                                       case, exception=type(e).__name__, site=raise_site(e), language=backend.name))
    syntax_check_c(ctexts, findings, stats, what)
    return {"stats": dict(stats), "findings": cap_findings(findings), "samples": samples, "wall": time.time() - t0}


def run(tier, seed):
    run = Run("C08", tier, seed)
    progs = kspace.programs(tier, "full" if tier == "quick" else "wide")
    base = set(space.enumerate_programs(2, 3))
    # programs with a broadcast target are part of the space (generate_* accepts them)
    units = []
    for p in progs:
        n = space.count_format_combos(p)
        for start in range(0, n, 64):
            units.append({"prog": space.prog_json(p), "start": start, "stop": min(n, start + 64),
                          "subsets": p in base})
    # order-3 transposes / element-wise: the family in which the output builder gives up
    extra = space.enumerate_programs(1, 6, min_total_order=6) + \
        (space.enumerate_programs(2, 6, min_total_order=6, repeats=False, ops="+", target_orders=(3,), max_order=3)
         if tier != "quick" else [])
    for p in extra:
        n = space.count_format_combos(p)
        for start in range(0, n, 64):
            units.append({"prog": space.prog_json(p), "start": start, "stop": min(n, start + 64), "subsets": False})
    units = rotate(units, seed)
    print(f"[C08] generate_code sweep: {len(progs) + len(extra)} programs, {len(units)} work units", flush=True)
    results = run_pool("vx.checks.c08", "work_space", units)
    cli_progs = [space.prog_json(p) for p in space.enumerate_programs(2, 3)]
    special = [{"what": "diagonal"}, {"what": "literal-only"}, {"what": "identifiers"}]
    for k in range(0, len(cli_progs), 24):
        special.append({"what": "cli", "progs": cli_progs[k : k + 24], "formats_per_prog": 3 if tier == "quick" else 8})
    tm_reqs = []
    for p in space.enumerate_programs(2, 3)[:: 3 if tier == "quick" else 1]:
        orders = space.tensor_orders(p)
        for f in ("d", "s"):
            tm_reqs.append((space.prog_str(p), {n: f * o for n, o in orders.items()}))
    for k in range(0, len(tm_reqs), 40):
        special.append({"what": "tensor_method", "requests": tm_reqs[k : k + 40], "cffi": False})
    cffi_reqs = tm_reqs[:: 40 if tier == "quick" else 10]
    for k in range(0, len(cffi_reqs), 2):
        special.append({"what": "tensor_method", "requests": cffi_reqs[k : k + 2], "cffi": True})
    print(f"[C08] special alphabets + CLI + tensor_method: {len(special)} work units", flush=True)
    results += run_pool("vx.checks.c08", "work_special", special)
    for status, res in results:
        if status == "skipped":
            continue
        if status != "ok":
            run.report({"signature": {"kind": status}, "what": f"worker failed: {res}", "case": {}})
            continue
        for k, v in res["stats"].items():
            if k.startswith("max "):
                run.counters[k] = max(run.counters[k], v)
            else:
                run.counters[k] += v
        for s in res["samples"]:
            run.sample(s, limit=3)
        run.report_all(res["findings"])
    total = run.counters["requests"] + run.counters["cli invocations"] + run.counters["tensor_method requests"]
    ok = run.counters["code returned"]
    run.assumptions += ["a request 'hangs' if it takes more than 20 s (measured maximum is in the counters)",
                        "tool chains: gcc 12 -std=c99 -fsyntax-only with -Werror on implicit declarations / int "
                        "conversion / incompatible pointers given only the published headers; llvmlite parse + verify"]
    return run.finish(
        states=total, transitions=total, traces_validated=run.counters["C texts accepted by gcc"] + run.counters["llvm modules verified"],
        evaluations=total, distinct_nontrivial=ok,
        rule="every program of the tier's program space (broadcast targets included) plus all order-3 "
             "transposes x every format assignment x kinds {assemble,compute,evaluate} x {c, llvm} through "
             "generate_code; for the L<=2,S<=3 space additionally every ordered non-empty subset of kinds and a "
             "duplicated kind; diagonal accesses; literal-only right-hand sides; every identifier spelling class "
             "(plain, C keywords, libc names, kernel names, C constants) in target / operand / index position; the "
             "typer CLI (exit code, stdout == library text + newline, -o file, flags in any order, dense flags "
             "omitted, front-end error menu); tensor_method on both back ends for a subset. Oracle: code or a "
             "documented typed refusal, within 20 s, and every returned text accepted by its tool chain. "
             "non-trivial = requests that returned code",
        exhaustive=True,
    )


def replay(path):
    from returns.result import Success

    from tensora.expression import parse_assignment
    from tensora.format import parse_format
    from tensora.generate import Language
    from tensora.kernel_type import KernelType
    from tensora.problem import make_problem

    with open(path) as f:
        rec = json.load(f)
    case = rec["case"]
    if "assignment" not in case:
        print("replay: re-run ./check C08; recorded case:", json.dumps(case)[:500])
        return 0
    findings = []
    stats = Counter()
    ctexts = []
    pa = parse_assignment(case["assignment"])
    if not isinstance(pa, Success):
        print("no longer parses")
        return 0
    fm = {n: (parse_fmt(f) if re.fullmatch(r"([ds][0-9])*", f) and f else parse_format(f).unwrap())
          for n, f in case["formats"].items()}
    mp = make_problem(pa.unwrap(), fm)
    if not isinstance(mp, Success):
        print("problem refused (documented)")
        return 0
    for lang in (Language.c, Language.llvm):
        for _ in range(2):
            t = request(mp.unwrap(), [KernelType.assemble, KernelType.compute, KernelType.evaluate], lang,
                        {**case, "language": str(lang)}, findings, stats)
        if t is not None:
            if lang == Language.c:
                ctexts.append((t, case))
            else:
                verify_llvm(t, case, findings, stats)
    syntax_check_c(ctexts, findings, stats, "replay")
    print([f["what"][:200] for f in findings])
    if findings:
        print(f"VIOLATION property=C08 replay={path}")
        return 1
    return 0
