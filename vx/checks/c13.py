"""C13 - kernel-allocated storage is freed exactly once, after its last user (HX engine)."""

from __future__ import annotations

import json
import os
import subprocess
import threading
import time
import sys

from ..common import BUILD_DIR, VERIF, Run


_SHIM_LOCK = threading.Lock()


def shim_path():
    so = os.path.join(BUILD_DIR, "shim.so")
    src = os.path.join(VERIF, "native", "shim.c")
    with _SHIM_LOCK:  # children are started from a thread pool
        if not os.path.exists(so) or os.path.getmtime(so) < os.path.getmtime(src):
            os.makedirs(BUILD_DIR, exist_ok=True)
            tmp = f"{so}.{os.getpid()}.{threading.get_ident()}.tmp"  # never let a loader see a half-written file
            subprocess.run(["gcc", "-O1", "-shared", "-fPIC", "-o", tmp, src, "-ldl"], check=True)
            os.replace(tmp, so)
    return so


def child(spec, timeout=7200):
    env = dict(os.environ)
    env["LD_PRELOAD"] = shim_path()
    env["PYTHONPATH"] = os.environ.get("PYTHONPATH") or VERIF
    env["TENSORA_VERIF"] = "1"
    p = subprocess.run([sys.executable, "-m", "vx.hx"], input=json.dumps(spec), capture_output=True, text=True,
                       env=env, cwd=VERIF, timeout=timeout)
    return p


def run(tier, seed):
    run = Run("C13", tier, seed)
    from concurrent.futures import ThreadPoolExecutor

    from ..common import NPROC

    # quick: depth 4 on the LLVM back end; thorough: depth 5 on the LLVM back end and depth 4 with both back ends
    passes = [{"depth": 4, "backends": ["llvm"]}] if tier == "quick" else \
        [{"depth": 5, "backends": ["llvm"]}, {"depth": 4, "backends": ["llvm", "cffi"]}]
    spec = passes[0]
    parts = NPROC
    specs = [{**sp, "part": (k + seed) % parts, "parts": parts} for sp in passes for k in range(parts)]
    from ..common import BUDGET

    def bounded_child(sp):
        # a partition that does not finish within the check's time budget is reported as not explored
        left = 7200 if BUDGET["deadline"] is None else BUDGET["deadline"] - time.time()
        if left < 30:
            return None
        try:
            return child(sp, timeout=left)
        except subprocess.TimeoutExpired:
            return None

    with ThreadPoolExecutor(parts) as ex:
        procs = list(ex.map(bounded_child, specs))
    unfinished = [sp for sp, p in zip(specs, procs, strict=True) if p is None]
    if unfinished:
        BUDGET["skipped"] += len(unfinished)
        run.coverage["partitions_not_completed"] = [{"depth": sp["depth"], "backends": sp["backends"], "part": sp["part"]}
                                                    for sp in unfinished]
    spec = {"depth": max(p["depth"] for p in passes), "backends": sorted({b for p in passes for b in p["backends"]})}
    res = {"states": 0, "transitions": 0, "nontrivial": 0, "sample": None}
    died = False
    for sp, p in zip(specs, procs, strict=True):
        if p is None:
            continue
        if p.returncode != 0:
            what = (p.stderr or "")[-1500:]
            kind = "process-crash" if p.returncode < 0 or "free()" in what or "double free" in what or "corrupt" in what else "harness-error"
            run.report({"signature": {"kind": kind}, "what": f"history explorer process exited with {p.returncode}: {what}",
                        "case": sp})
            died = True
            continue
        r = json.loads(p.stdout)
        for k, v in r["stats"].items():
            run.counters[k] += v
        run.report_all(r["findings"])
        for k in ("states", "transitions", "nontrivial"):
            res[k] += r[k]
        res["sample"] = res["sample"] or r["sample"]
    if died and not res["states"]:
        return run.finish(states=1, transitions=1, traces_validated=0, evaluations=1, distinct_nontrivial=0,
                          rule="explorer processes died", exhaustive=False)
    if res["sample"]:
        run.sample({"history": res["sample"], "checked_after_every_operation":
                    "interposer state of every kernel-allocated array vs reference model; values read back"})
    run.assumptions += [
        "free()/realloc() are observed by an LD_PRELOAD interposer in the same process; kernel mallocs from MCJIT "
        "code and cffi-compiled code and the frees issued by ffi.gc all pass through it",
        "CPython reference counting: an unreachable result may be freed at once or at the next gc.collect(); it must "
        "be freed exactly once by then",
    ]
    return run.finish(
        states=res["states"], transitions=res["transitions"], traces_validated=res["transitions"],
        evaluations=res["transitions"], distinct_nontrivial=res["nontrivial"],
        rule=f"breadth-first search to depth {spec['depth']} (partitioned over {parts} processes by first operation; "
             "states are deduplicated within a partition) over histories of the operations EVAL (sparse vector / dense "
             "vector / scalar / block-sparse matrix with a zero-sized dense dimension / block-sparse matrix output, "
             f"back ends {spec['backends']}), ALIAS, STRUCT (keep only the C struct), READ, PICKLE, FEED "
             "(use as an input of another evaluate), DEL, GC on three name slots; a state is rebuilt by replaying "
             "its history on fresh objects and deduplicated by a canonical form (slot -> object class, view, kind, "
             "origin; pending garbage). After every operation: every array of every referenced result is LIVE in the "
             "interposer table with unchanged contents and reads back the expected values; no array is ever freed "
             "twice; after GC and at the end of every history no array of an unreachable result is still allocated. "
             "non-trivial = canonical states holding at least one kernel-allocated result",
        exhaustive=not unfinished,
    )


def replay(path):
    with open(path) as f:
        rec = json.load(f)
    p = child({"mode": "replay", "history": rec["case"]["history"], "backends": rec["case"].get("backends", ["llvm"])})
    if p.returncode != 0:
        print(p.stderr[-800:])
        print(f"VIOLATION property=C13 replay={path}")
        return 1
    out = json.loads(p.stdout)["problems"]
    if out[0] != out[1]:
        print("REPLAY DIVERGED", out)
        return 2
    print(out[0])
    if out[0]:
        print(f"VIOLATION property=C13 replay={path}")
        return 1
    return 0
