"""C12 - assignment and format text round-trips and means what arithmetic says (SX engine)."""

from __future__ import annotations

import itertools
import json
import re
import time
from collections import Counter
from fractions import Fraction

from ..common import cap_findings, too_many, Run, TimeLimit, chunked, rotate, run_pool

ASSIGN_ALPHABET = ["a", "B", "i", "1", "0", ".", "e", "(", ")", ",", "=", "+", "-", "*", " "]
FORMAT_ALPHABET = ["d", "s", "0", "1", "2", ":", "A", "_"]

INT_SPELLINGS = ["0", "7", "007", "12", "123456789012345678901"]
FLOAT_SPELLINGS = ["1.5", "0.50", "10.25", "1e5", "1E5", "1e+5", "1e-5", "1.5e3", "2.50e-03", "1e-999", "1e999"]
TENSOR_LEAVES = [("x", ()), ("y", ("i",)), ("z", ("i", "j")), ("w", ("j", "i"))]


def _f(kind, what, case, **sig):
    return {"props": ["C12"], "signature": {"kind": kind, **sig}, "what": what, "case": case}


# ------------------------------------------------------------------ independent recognisers


def format_recogniser(s: str):
    """Independent statement of the format grammar: (d|s)* or ((d|s)digits)* with digits a
    permutation of 0..n-1.  Returns None (syntax error), 'order' (bad permutation) or the pair."""
    if re.fullmatch(r"[ds]*", s):
        return (tuple(s), tuple(range(len(s))))
    if re.fullmatch(r"([ds][0-9]+)+", s):
        parts = re.findall(r"([ds])([0-9]+)", s)
        modes = tuple(p[0] for p in parts)
        order = tuple(int(p[1]) for p in parts)
        if sorted(order) != list(range(len(parts))):
            return "order"
        return (modes, order)
    return None


def check_format_string(s, named, findings, stats):
    from returns.result import Failure, Success

    from tensora.format import parse_format, parse_named_format
    from tensora.format._exceptions import InvalidModeOrderingError

    try:
        with TimeLimit(20, "parse_format"):
            r = parse_named_format(s) if named else parse_format(s)
    except BaseException as e:  # noqa: BLE001
        findings.append(_f("parse-raises", f"parse_{'named_' if named else ''}format({s!r}) raised "
                           f"{type(e).__name__}: {e}", {"text": s, "named": named}, exception=type(e).__name__,
                           parser="format"))
        return
    if named:
        m = re.fullmatch(r"([a-zA-Z_][a-zA-Z0-9_]*):(.*)", s, flags=re.S)
        want = format_recogniser(m.group(2)) if m else None
    else:
        want = format_recogniser(s)
    if isinstance(r, Success):
        stats["formats accepted"] += 1
        got = r.unwrap()
        name = None
        if named:
            name, got = got
        gotpair = (tuple(mo.character for mo in got.modes), tuple(got.ordering))
        if want is None:
            # accepted although the documented grammar has no such sentence: an extension, not a violation,
            # as long as it round-trips (checked below)
            stats["formats accepted beyond the documented grammar"] += 1
        elif want == "order" or gotpair != want or (named and name != m.group(1)):
            findings.append(_f("format-acceptance", f"{s!r} parsed to {gotpair} but the grammar says {want}",
                               {"text": s, "named": named}))
            return
        back = parse_format(got.deparse())
        if not isinstance(back, Success) or back.unwrap() != got:
            findings.append(_f("format-roundtrip", f"{s!r}: deparse {got.deparse()!r} does not parse back",
                               {"text": s, "named": named}))
    elif isinstance(r, Failure):
        stats["formats rejected"] += 1
        err = r.failure()
        if want not in (None, "order"):
            findings.append(_f("format-acceptance", f"{s!r} was rejected ({type(err).__name__}) but the grammar "
                               f"accepts it as {want}", {"text": s, "named": named}))
        elif want == "order" and not isinstance(err, InvalidModeOrderingError):
            findings.append(_f("format-error-type", f"{s!r}: bad ordering reported as {type(err).__name__}",
                               {"text": s, "named": named}))
    else:
        findings.append(_f("parse-result-type", f"{s!r}: parse returned {type(r).__name__}", {"text": s}))


# ------------------------------------------------------------------------ assignments


def eval_ast(e, env):
    from tensora.expression import ast

    if isinstance(e, ast.Tensor):
        return env[(e.name, e.indexes)]
    if isinstance(e, ast.Integer):
        return Fraction(e.value)
    if isinstance(e, ast.Float):
        return Fraction(e.value)
    l, r = eval_ast(e.left, env), eval_ast(e.right, env)
    if isinstance(e, ast.Add):
        return l + r
    if isinstance(e, ast.Subtract):
        return l - r
    return l * r


def check_assignment_string(s, findings, stats):
    from returns.result import Failure, Success

    from tensora.expression import parse_assignment

    try:
        with TimeLimit(20, "parse_assignment"):
            r = parse_assignment(s)
    except BaseException as e:  # noqa: BLE001
        findings.append(_f("parse-raises", f"parse_assignment({s!r}) raised {type(e).__name__}: {e}", {"text": s},
                           exception=type(e).__name__, parser="assignment"))
        return None
    if isinstance(r, Success):
        stats["assignments accepted"] += 1
        a = r.unwrap()
        try:
            text = a.deparse()
            r2 = parse_assignment(text)
        except BaseException as e:  # noqa: BLE001
            findings.append(_f("deparse-raises", f"deparse/reparse of {s!r} raised {type(e).__name__}: {e}",
                               {"text": s}, exception=type(e).__name__))
            return a
        if not isinstance(r2, Success) or r2.unwrap() != a:
            findings.append(_f("roundtrip", f"{s!r} -> {text!r} does not parse back to the same tree", {"text": s},
                               nonfinite=("inf" in text or "nan" in text)))
        return a
    if isinstance(r, Failure):
        stats["assignments rejected"] += 1
        return None
    findings.append(_f("parse-result-type", f"{s!r}: parse returned {type(r).__name__}", {"text": s}))
    return None


def work_strings(unit):
    """All strings with a given prefix, up to the length bound."""
    t0 = time.time()
    stats = Counter()
    findings = []
    kind = unit["kind"]
    alphabet = ASSIGN_ALPHABET if kind == "assignment" else FORMAT_ALPHABET
    n = 0
    samples = []
    for prefix in unit["prefixes"]:
        for extra in range(0, unit["maxlen"] - len(prefix) + 1):
            for tail in itertools.product(alphabet, repeat=extra):
                s = prefix + "".join(tail)
                n += 1
                if kind == "assignment":
                    a = check_assignment_string(s, findings, stats)
                    if a is not None and len(samples) < 2:
                        samples.append({"text": s, "parsed": a.deparse()})
                else:
                    check_format_string(s, False, findings, stats)
                    check_format_string(s, True, findings, stats)
                if too_many(findings):
                    break
    return {"stats": dict(stats), "findings": cap_findings(findings), "n": n, "samples": samples, "wall": time.time() - t0}


# ------------------------------------------------------------------------------ trees


def tree_shapes(n):
    if n == 1:
        yield "L"
        return
    for k in range(1, n):
        for l in tree_shapes(k):
            for r in tree_shapes(n - k):
                yield (l, r)


def fill(shape, leaves, ops):
    leaves = iter(leaves)
    ops = iter(ops)

    def rec(s):
        if s == "L":
            return next(leaves)
        op = next(ops)
        return (op, rec(s[0]), rec(s[1]))

    return rec(shape)


def leaf_text(leaf):
    if leaf[0] == "t":
        return f"{leaf[1]}({','.join(leaf[2])})"
    return leaf[1]


def tokens(tree, redundant=None, path=()):
    """Token list of the conventional spelling: parentheses only where the grammar needs them,
    plus one optional redundant pair around the subexpression at `redundant`."""
    if tree[0] in ("t", "n"):
        toks = [leaf_text(tree)]
    else:
        op, l, r = tree
        lt = tokens(l, redundant, path + (0,))
        rt = tokens(r, redundant, path + (1,))
        if op == "*":
            if l[0] in "+-":
                lt = ["(", *lt, ")"]
            if r[0] in "+-*":
                rt = ["(", *rt, ")"]
        else:
            if r[0] in "+-":
                rt = ["(", *rt, ")"]
        toks = [*lt, op, *rt]
    if redundant == path:
        toks = ["(", *toks, ")"]
    return toks


def subpaths(tree, path=()):
    yield path
    if tree[0] not in ("t", "n"):
        yield from subpaths(tree[1], path + (0,))
        yield from subpaths(tree[2], path + (1,))


def to_ast(tree):
    from tensora.expression import ast

    if tree[0] == "t":
        return ast.Tensor(tree[1], tuple(tree[2]))
    if tree[0] == "n":
        s = tree[1]
        if re.fullmatch(r"[0-9]+", s):
            return ast.Integer(int(s))
        return ast.Float(float(s))
    cls = {"+": ast.Add, "-": ast.Subtract, "*": ast.Multiply}[tree[0]]
    return cls(to_ast(tree[1]), to_ast(tree[2]))


def python_value(toks, env):
    """Python's own evaluation of the sentence: the independent statement of conventional meaning."""
    names = {}
    out = []
    for t in toks:
        if t in "()+-*":
            out.append(t)
        elif t[0].isdigit():
            # a literal denotes its int value, or the double its spelling rounds to
            out.append(f"F({int(t)})" if t.isdigit() else f"F({float(t)!r})")
        else:
            m = re.fullmatch(r"([A-Za-z][A-Za-z0-9]*)\((.*)\)", t)
            key = (m.group(1), tuple(x for x in m.group(2).split(",") if x))
            var = f"v{len(names)}"
            names[var] = env[key]
            out.append(var)
    return eval(" ".join(out), {"F": Fraction, "__builtins__": {}}, names)  # noqa: S307 - own tokens only


def work_trees(unit):
    from returns.result import Success

    from tensora.expression import ast, parse_assignment

    t0 = time.time()
    stats = Counter()
    findings = []
    samples = []
    n = 0
    lits = unit["literals"]
    primes = [Fraction(p) for p in (2, 3, 5, 7, 11, 13, 17, 19, 23)]
    for shape in [s for k in range(1, unit["max_leaves"] + 1) for s in tree_shapes(k)][unit["lo"] : unit["hi"]]:
        nl = str(shape).count("L")
        leaf_classes = [("t", *TENSOR_LEAVES[k % len(TENSOR_LEAVES)]) for k in range(4)]
        # leaves: k-th leaf is a distinct tensor (name suffixed by position) or a literal
        choices = []
        for pos in range(nl):
            opts = [("t", f"{TENSOR_LEAVES[c][0]}{pos}", TENSOR_LEAVES[c][1]) for c in range(len(TENSOR_LEAVES))]
            opts += [("n", s) for s in lits]
            choices.append(opts)
        for leaves in itertools.product(*choices):
            if nl >= 3 and sum(1 for l in leaves if l[0] == "n") > 1:
                continue  # at most one literal in 3+-leaf trees keeps the space bounded
            for ops in itertools.product("+-*", repeat=nl - 1):
                tree = fill(shape, leaves, ops)
                expect = ast.Assignment(ast.Tensor("T", ("i", "j")), to_ast(tree))
                env = {}
                for k, l in enumerate(leaves):
                    if l[0] == "t":
                        env[(l[1], tuple(l[2]))] = primes[k]
                # tree -> deparse -> parse
                n += 1
                nonfinite = any(l[0] == "n" and float(l[1]) in (float("inf"),) for l in leaves)
                try:
                    text = expect.deparse()
                    back = parse_assignment(text)
                    if not isinstance(back, Success) or back.unwrap() != expect:
                        findings.append(_f("roundtrip", f"tree {tree} deparses to {text!r} which does not parse back "
                                           "to the same tree", {"tree": tree, "text": text}, nonfinite=nonfinite))
                except BaseException as e:  # noqa: BLE001
                    findings.append(_f("deparse-raises", f"tree {tree}: {type(e).__name__}: {e}", {"tree": tree},
                                       exception=type(e).__name__))
                # sentences of the tree
                variants = [None, *subpaths(tree)] if unit["redundant"] else [None]
                for red in variants:
                    toks = tokens(tree, red)
                    for sep in unit["blanks"]:
                        s = "T(i,j)" + sep + "=" + sep + sep.join(toks)
                        n += 1
                        try:
                            r = parse_assignment(s)
                        except BaseException as e:  # noqa: BLE001
                            findings.append(_f("parse-raises", f"parse_assignment({s!r}) raised {type(e).__name__}",
                                               {"text": s}, exception=type(e).__name__, parser="assignment"))
                            continue
                        if not isinstance(r, Success):
                            findings.append(_f("sentence-rejected", f"grammatical sentence {s!r} rejected: "
                                               f"{r.failure()}", {"text": s, "tree": tree}))
                            continue
                        got = r.unwrap()
                        stats["sentences parsed"] += 1
                        if got != expect:
                            findings.append(_f("wrong-tree", f"{s!r} parsed to {got.deparse()!r}, expected the tree "
                                               f"{tree}", {"text": s, "tree": tree}, nonfinite=nonfinite))
                            continue
                        if not nonfinite:
                            v1 = eval_ast(got.expression, env)
                            v2 = python_value(toks, env)
                            if v1 != v2:
                                findings.append(_f("meaning", f"{s!r}: tree evaluates to {v1}, arithmetic says {v2}",
                                                   {"text": s, "tree": tree}))
                            else:
                                stats["meanings compared"] += 1
                        if len(samples) < 1 and nl == 3 and red is not None:
                            samples.append({"sentence": s, "tree": tree, "value": str(eval_ast(got.expression, env))})
                if too_many(findings):
                    break
            if too_many(findings):
                break
    return {"stats": dict(stats), "findings": cap_findings(findings), "n": n, "samples": samples, "wall": time.time() - t0}


def work_backends(unit):
    """The meaning of a sentence on the real back ends (llvmlite JIT and tensora's own cffi compile) with doubles on
    which a fused multiply-add or a re-association is visible: see vx/realbe.py."""
    from ..realbe import work

    return work(unit)


def pipeline_cases(max_leaves):
    """(target indexes, tree) for the far-end meaning sweep: every shape and operator assignment; leaves are
    distinct tensors with indexes from {(), (i), (j)} (every combination up to 3 leaves, {(), (i)} at 4 leaves, the
    two alternating scalar/vector patterns beyond), one literal variant per tree position up to 3 leaves."""
    out = []
    for nl in range(1, max_leaves + 1):
        if nl <= 3:
            idx_choices = list(itertools.product([(), ("i",), ("j",)], repeat=nl))
        elif nl == 4:
            idx_choices = list(itertools.product([(), ("i",)], repeat=nl))
        else:
            idx_choices = [tuple(() if k % 2 == par else ("i",) for k in range(nl)) for par in (0, 1)]
        for shape in tree_shapes(nl):
            for idxs in idx_choices:
                leafsets = [[("t", f"t{k}", idx) for k, idx in enumerate(idxs)]]
                if 2 <= nl <= 3:
                    for k in range(nl):
                        ls = list(leafsets[0])
                        ls[k] = ("n", "2")
                        leafsets.append(ls)
                for leaves in leafsets:
                    for ops in itertools.product("+-*", repeat=nl - 1):
                        tree = fill(shape, leaves, ops)
                        for target in ((), ("i",)):
                            out.append((target, tree))
    return out


def pipeline_one(target, tree, stats):
    """One assignment of the far-end sweep.  Returns (finding or None, compared?, text, value)."""
    from returns.result import Success

    from tensora.expression import parse_assignment
    from tensora.format import Format, Mode
    from tensora.problem import Problem

    from .. import kx, space
    from ..am import Fault, Machine
    from ..tensors import am_decode

    primes = [Fraction(p) for p in (2, 3, 5, 7, 11, 13, 17, 19, 23)]
    DIM = {"i": 1, "j": 1}
    toks = tokens(tree)
    text = f"T({','.join(target)}) = " + " ".join(toks)
    r = parse_assignment(text)
    if not isinstance(r, Success):
        stats["pipeline: assignment rejected (validity rules)"] += 1
        return None, False, text, None
    asg = r.unwrap()
    prog = ("T", tuple(target), tree)
    if not any(l[0] == "t" for l in space.tree_leaves(tree)):
        return None, False, text, None
    orders = space.tensor_orders(prog)
    fmts = {nm: Format((Mode.dense,) * o, tuple(range(o))) for nm, o in orders.items()}
    status, module = kx.generate(Problem(asg, fmts), kx.KINDS3)
    if status != "ok":
        stats[f"pipeline: generation {status} ({type(module).__name__})"] += 1
        return None, False, text, None
    kc = kx.KernelCase(prog, list(orders), fmts, module)
    joint = space.full_joint_structure(prog, fmts, DIM)
    vals, _env = kx.make_env(joint)
    m = Machine(generic=True, budget=20000)
    case = {"text": text, "tree": tree, "target": list(target), "stage": "evaluate kernel, all dimensions 1"}
    try:
        args, ts_out, odims = kc.build_args(m, kc.fns["evaluate"], DIM, joint, vals)
        m.call(kc.fns["evaluate"], args)
        stored, problems, _image = am_decode(ts_out, kc.ofmt, odims)
    except Fault as f:
        stats[f"pipeline: kernel fault {f.kind} (C05's business)"] += 1
        return None, False, text, None
    if problems or len(stored) != 1:
        stats["pipeline: malformed output (C02's business)"] += 1
        return None, False, text, None
    point = {}
    pyenv = {}
    k = 0
    for l in space.tree_leaves(tree):
        if l[0] == "t":
            point[kx.var_name(l[1], (0,) * len(l[2]))] = primes[k]
            pyenv[(l[1], tuple(l[2]))] = primes[k]
            k += 1
    got = next(iter(stored.values()))
    got = got.subst(point) if hasattr(got, "subst") else Fraction(got)
    want = python_value(toks, pyenv)
    if got != want:
        return _f("pipeline-meaning", f"{text!r} with every dimension 1 computes {got}, arithmetic says {want}", case), \
            True, text, got
    return None, True, text, got


def work_pipeline(unit):
    """The conventional meaning of the text, observed at the far end of the compiler: with every dimension equal
    to 1 a contraction sums one term, so the generated evaluate kernel (parse -> desugar -> iteration graph -> IR,
    run on the abstract machine over polynomials) must compute exactly what Python's arithmetic computes from the
    same tokens."""
    t0 = time.time()
    stats = Counter()
    findings = []
    samples = []
    n = 0
    cases = pipeline_cases(unit["max_leaves"])[unit["part"] :: unit["parts"]]
    for target, tree in cases:
        n += 1
        f, compared, text, got = pipeline_one(target, tree, stats)
        if f is not None:
            findings.append(f)
        elif compared:
            stats["pipeline meanings compared"] += 1
            if len(samples) < 1 and len(text) > 40:
                samples.append({"sentence": text, "kernel value": str(got), "dimensions": "all 1"})
        if too_many(findings):
            break
    return {"stats": dict(stats), "findings": cap_findings(findings), "n": n, "samples": samples, "wall": time.time() - t0}


# ------------------------------------------------------------------- validation & probes


def work_misc(unit):
    from returns.result import Failure, Success

    from tensora.expression import parse_assignment
    from tensora.expression._exceptions import (
        InconsistentDimensionsError,
        MutatingAssignmentError,
        NameConflictError,
    )
    from tensora.format import Format, Mode, parse_format

    stats = Counter()
    findings = []
    n = 0
    # (4) invalid assignments are rejected with the matching typed failure
    bad = []
    for rhs in ["a(i)", "b(i) + a(i)", "b(i) * (c(j) - a(i))", "a()", "2 * a(i)", "a(j) + a(i)"]:
        bad.append((f"a(i) = {rhs}", MutatingAssignmentError))
    for rhs in ["b(i) + b(i,j)", "b() * b(i)", "c(i) + (b(i,j) - b(j))", "b(i,j,k) + b(i,j)"]:
        bad.append((f"a(i) = {rhs}", InconsistentDimensionsError))
    for s in ["a(i) = i(i)", "a(b) = b(i)", "a(i) = b(c) + c(i)", "a(a) = b(i)", "a(i) = b(a)", "a(i) = b(j) * j()"]:
        bad.append((s, NameConflictError))
    for s, exc in bad:
        n += 1
        try:
            r = parse_assignment(s)
        except BaseException as e:  # noqa: BLE001
            findings.append(_f("parse-raises", f"parse_assignment({s!r}) raised {type(e).__name__}", {"text": s},
                               exception=type(e).__name__, parser="assignment"))
            continue
        if isinstance(r, Success):
            findings.append(_f("invalid-accepted", f"{s!r} was accepted; expected {exc.__name__}", {"text": s}))
        elif not isinstance(r.failure(), exc):
            findings.append(_f("invalid-error-type", f"{s!r}: got {type(r.failure()).__name__}, expected "
                               f"{exc.__name__}", {"text": s}))
        else:
            stats["invalid assignments rejected with the right type"] += 1
    # (5) every format of order 0..max round-trips
    for order in range(0, unit["max_format_order"] + 1):
        for modes in itertools.product((Mode.dense, Mode.compressed), repeat=order):
            for perm in itertools.permutations(range(order)):
                n += 1
                f = Format(tuple(modes), tuple(perm))
                text = f.deparse()
                r = parse_format(text)
                if not isinstance(r, Success) or r.unwrap() != f:
                    findings.append(_f("format-roundtrip", f"format {f} deparses to {text!r} which does not parse "
                                       "back", {"text": text}))
                else:
                    stats["formats round-tripped"] += 1
    # ordering digit strings incl. leading zeros and non-permutations (order 2 and 3)
    for order in (1, 2, 3):
        for digits in itertools.product(["0", "1", "2", "3", "00", "01", "10"], repeat=order):
            s = "".join(m + d for m, d in zip("dsd", digits, strict=False))
            n += 2
            check_format_string(s, False, findings, stats)
            check_format_string("A_1:" + s, True, findings, stats)
    # limit probes: one input per environment limit visible in the code (int(), recursion)
    probes = {
        "nesting-100": "a(i) = " + "(" * 100 + "b(i)" + ")" * 100,
        "nesting-1000": "a(i) = " + "(" * 1000 + "b(i)" + ")" * 1000,
        "chain-3000": "a(i) = " + " + ".join(["b(i)"] * 3000),
        "digits-4301": "a(i) = " + "1" * 4301 + " * b(i)",
        "digits-400-float": "a(i) = " + "1" * 400 + ".5 * b(i)",
    }
    for pid, s in probes.items():
        n += 1
        try:
            with TimeLimit(120, pid):
                r = parse_assignment(s)
                if isinstance(r, Success):
                    a = r.unwrap()
                    r2 = parse_assignment(a.deparse())
                    if not isinstance(r2, Success) or r2.unwrap() != a:
                        findings.append(_f("roundtrip", f"limit probe {pid}: deparse does not parse back",
                                           {"probe": pid}, nonfinite="inf" in a.deparse(), probe=pid))
                    else:
                        stats["limit probes handled"] += 1
                else:
                    stats["limit probes rejected with a typed failure"] += 1
        except BaseException as e:  # noqa: BLE001
            findings.append(_f("parse-raises", f"limit probe {pid}: {type(e).__name__}", {"probe": pid},
                               exception=type(e).__name__, parser="assignment", probe=pid))
    return {"stats": dict(stats), "findings": findings, "n": n, "samples": [], "wall": 0}


def independent_validity(target, leaves):
    """Which of the three rejection rules does the assignment violate? (independent statement)"""
    tname, tidx = target
    broken = set()
    if any(n == tname for n, _ in leaves):
        broken.add("MutatingAssignmentError")
    orders = {}
    for n, idx in leaves:
        if orders.setdefault(n, len(idx)) != len(idx):
            broken.add("InconsistentDimensionsError")
    tensor_names = {tname} | {n for n, _ in leaves}
    index_names = set(tidx) | {i for _, idx in leaves for i in idx}
    if tensor_names & index_names:
        broken.add("NameConflictError")
    return broken


def work_validity(unit):
    """Every assignment over a tiny alphabet SHARED between tensor and index names: accepted iff it
    breaks none of the three rules; rejected with the type of one of the rules it breaks."""
    from returns.result import Success

    from tensora.expression import parse_assignment

    stats = Counter()
    findings = []
    n = 0
    names = ["A", "B", "C"]
    idxs = ["i", "A", "B"]

    def refs(max_order):
        out = []
        for nm in names:
            for o in range(max_order + 1):
                for t in itertools.product(idxs, repeat=o):
                    out.append((nm, t))
        return out

    targets = [(nm, t) for nm in ("A", "C") for o in (0, 1) for t in itertools.product(idxs, repeat=o)]
    spaces = [(refs(2), 2, ["{0} + {1}", "{0} * {1}"]), (refs(1), 3, ["{0} + {1} * {2}", "({0} - {1}) * {2}"])]
    k = 0
    for pool, nl, shapes in spaces:
        for leaves in itertools.product(pool, repeat=nl):
            k += 1
            if k % unit["parts"] != unit["part"]:
                continue
            texts = [f"{nm}({','.join(t)})" for nm, t in leaves]
            for target in targets:
                broken = independent_validity(target, leaves)
                for shape in shapes:
                    n += 1
                    s = f"{target[0]}({','.join(target[1])}) = " + shape.format(*texts)
                    try:
                        r = parse_assignment(s)
                    except BaseException as e:  # noqa: BLE001
                        findings.append(_f("parse-raises", f"parse_assignment({s!r}) raised {type(e).__name__}",
                                           {"text": s}, exception=type(e).__name__, parser="assignment"))
                        continue
                    if isinstance(r, Success):
                        if broken:
                            findings.append(_f("invalid-accepted", f"{s!r} was accepted although it violates "
                                               f"{sorted(broken)}", {"text": s}, rule=sorted(broken)[0]))
                        else:
                            stats["valid assignments accepted"] += 1
                    else:
                        got = type(r.failure()).__name__
                        if not broken:
                            findings.append(_f("valid-rejected", f"{s!r} is valid but was rejected with {got}", {"text": s}))
                        elif got not in broken:
                            findings.append(_f("invalid-error-type", f"{s!r}: rejected with {got}, it violates "
                                               f"{sorted(broken)}", {"text": s}))
                        else:
                            stats["invalid assignments rejected with a matching type"] += 1
                if too_many(findings):
                    break
    return {"stats": dict(stats), "findings": cap_findings(findings), "n": n, "samples": [], "wall": 0}


def run(tier, seed):
    run = Run("C12", tier, seed)
    units = []
    alen = 5 if tier == "quick" else 6
    flen = 6 if tier == "quick" else 7
    pre = ["".join(p) for p in itertools.product(ASSIGN_ALPHABET, repeat=2)]
    for ch in chunked(pre, 2):
        units.append(("work_strings", {"kind": "assignment", "prefixes": ch, "maxlen": alen}))
    units.append(("work_strings", {"kind": "assignment", "prefixes": [""] + ASSIGN_ALPHABET, "maxlen": 1}))
    pre = ["".join(p) for p in itertools.product(FORMAT_ALPHABET, repeat=2)]
    for ch in chunked(pre, 2):
        units.append(("work_strings", {"kind": "format", "prefixes": ch, "maxlen": flen}))
    units.append(("work_strings", {"kind": "format", "prefixes": [""] + FORMAT_ALPHABET, "maxlen": 1}))
    max_leaves = 3 if tier == "quick" else 4
    nshapes = sum(1 for k in range(1, max_leaves + 1) for _ in tree_shapes(k))
    lits = (INT_SPELLINGS + FLOAT_SPELLINGS) if tier == "thorough" else ["0", "007", "123456789012345678901", "1.5",
                                                                           "0.50", "1e5", "1E5", "1e+5", "2.50e-03",
                                                                           "1e-999", "1e999"]
    for lo in range(nshapes):
        units.append(("work_trees", {"lo": lo, "hi": lo + 1, "max_leaves": max_leaves, "literals": lits,
                                     "redundant": True, "blanks": ["", " ", "  "]}))
    for k in range(32):
        units.append(("work_pipeline", {"part": k, "parts": 32, "max_leaves": 5 if tier == "quick" else 6}))
    for k in (0, 2, 4, 6):
        units.append(("work_backends", {"k": k, "prop": "C12"}))
    units.append(("work_misc", {"max_format_order": 4 if tier == "quick" else 5}))
    for k in range(16):
        units.append(("work_validity", {"part": k, "parts": 16}))
    units = rotate(units, seed)
    by = {}
    for fn, arg in units:
        by.setdefault(fn, []).append(arg)
    total = 0
    for fn, args in by.items():
        print(f"[C12] {fn}: {len(args)} work units", flush=True)
        for status, res in run_pool("vx.checks.c12", fn, args):
            if status == "skipped":
                continue
            if status != "ok":
                run.report({"signature": {"kind": "worker-exception"}, "what": f"harness worker failed: {res}", "case": {}})
                continue
            total += res["n"]
            for k, v in res["stats"].items():
                run.counters[k] += v
            for s in res["samples"]:
                run.sample(s, limit=5)
            run.report_all(res["findings"])
    run.assumptions += ["the independent oracle for meaning is Python's own evaluation of the sentence text with "
                        "tensor references replaced by variables and literals by exact rationals"]
    accepted = run.counters["assignments accepted"] + run.counters["sentences parsed"] + run.counters["formats accepted"]
    return run.finish(
        states=total, transitions=total, traces_validated=accepted, evaluations=total, distinct_nontrivial=accepted,
        rule=f"(1) every string of length <= {alen} over {ASSIGN_ALPHABET} through parse_assignment and every string "
             f"of length <= {flen} over {FORMAT_ALPHABET} through parse_format and parse_named_format: Success or "
             "Failure, never an exception; accepted strings re-parse from their deparse; format acceptance agrees with "
             f"an independent recogniser. (2) every expression tree with <= {max_leaves} leaves (all shapes, all "
             "operators, tensors of order 0..2 and every literal spelling class): tree -> deparse -> parse is the "
             "identity; every sentence of the tree (minimal parentheses, one redundant pair at each subexpression, "
             "0/1/2 blanks at token boundaries) parses to exactly that tree and evaluates to what Python arithmetic "
             "gives for the same text. (3) every 2-leaf (orders 0..2) and 3-leaf (orders 0..1) assignment over the "
             "names {A,B,C} and the index alphabet {i,A,B} (shared on purpose): accepted iff it reuses no target, uses "
             "no tensor with two orders and no name as both tensor and index (independent validator), rejected with "
             "the type of a rule it breaks; all formats of order 0..4(5) "
             "round-trip; limit probes. non-trivial = accepted strings/sentences (each is re-parsed and compared)",
        exhaustive=True,
    )


def replay(path):
    from returns.result import Success

    from tensora.expression import parse_assignment

    with open(path) as f:
        rec = json.load(f)
    case = rec["case"]
    findings = []
    stats = Counter()
    def to_tuple(t):
        return tuple(to_tuple(x) for x in t) if isinstance(t, list) else t

    if case.get("realbe"):
        findings = work_backends({"k": case["menu_index"], "prop": "C12"})["findings"]
    elif "stage" in case:
        f, *_ = pipeline_one(tuple(case["target"]), to_tuple(case["tree"]), stats)
        findings = [f] if f is not None else []
    elif "text" in case and not case.get("named") and rec["signature"].get("parser") != "format":
        for _ in range(2):
            check_assignment_string(case["text"], findings, stats)
    elif "text" in case:
        check_format_string(case["text"], bool(case.get("named")), findings, stats)
    elif "probe" in case:
        r = work_misc({"max_format_order": 0})
        findings = [f for f in r["findings"] if f["case"].get("probe") == case["probe"]]
    print([f["what"] for f in findings])
    if findings:
        print(f"VIOLATION property=C12 replay={path}")
        return 1
    return 0
