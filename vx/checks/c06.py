"""C06 - the C and LLVM back ends implement the same kernel (and both agree with the IR)."""

from __future__ import annotations

import json
import os

from .. import kspace, space
from ..common import Run, chunked, rotate, run_pool

NPARTS = 16


def kernel_specs(progs, stride=1, offset=0):
    specs = []
    n = 0
    for p in progs:
        names, combos = space.format_combos(p)
        for combo in combos:
            if n % stride == offset % stride:
                specs.append((space.prog_json(p), space.fmts_json(names, dict(zip(names, combo, strict=True)))))
            n += 1
    return specs


def nx_units(specs, opts, capacity, label, batch=40):
    return [{"kernels": ch, "opts": opts, "tag": f"{label}{i}", "capacity": capacity, "label": label}
            for i, ch in enumerate(chunked(specs, batch))]


def nx_run(run, units):
    """All native batches in one pool (the capacity hook is set per unit)."""
    units = rotate(units, run.seed)
    print(f"[C06] (a) native conformance: {sum(len(u['kernels']) for u in units)} kernel requests in {len(units)} "
          "batches", flush=True)
    results = run_pool("vx.nx", "work", units)
    tot = {"cases": 0, "validated": 0, "kernels": 0}
    for unit, (status, res) in zip(units, results, strict=True):
        label = unit["label"]
        if status == "skipped":
            continue
        if status != "ok":
            run.report({"signature": {"kind": "worker-exception"}, "what": f"harness worker failed: {res}", "case": {}})
            continue
        for k, v in res["stats"].items():
            run.counters[f"{label}: {k}"] = round(run.counters[f"{label}: {k}"] + v, 2)
        tot["cases"] += res["cases"]
        tot["validated"] += res["validated"]
        tot["kernels"] += res["stats"].get("kernels", 0)
        for s in res["samples"]:
            run.sample(s, limit=3)
        for f in res["findings"]:
            if "C06" in f["props"]:
                run.report(f)
    return tot


def run(tier, seed):
    run = Run("C06", tier, seed)
    P = space.enumerate_programs
    base = P(2, 3)
    if tier == "quick":
        more = [p for p in kspace.programs(tier, "light") if p not in set(base)]
        stride = 11
    else:
        more = [p for p in kspace.programs(tier, "full") if p not in set(base)]
        stride = 5
    # native compilation does not scale beyond ~4 concurrent tool chains in this VM (page-fault bound), so the
    # quick tier compiles every 2nd kernel of the base space (the other half under the next VERIF_SEED)
    base_stride = 2 if tier == "quick" else 1
    specs = kernel_specs(base, stride=base_stride, offset=seed) + kernel_specs(more, stride=stride, offset=seed)
    opts = {"cap": 16 if tier == "quick" else 32, "deviations": True, "with_ac": True}
    units = nx_units(specs, opts, "1", "cap1")
    dspecs = kernel_specs(base, stride=8 if tier == "quick" else 1, offset=seed)
    units += nx_units(dspecs, {**opts, "cap": 6}, "", "capdefault", batch=20)
    # rounding-sensitive sub-sweep: inexact values expose re-association by a printer
    rprogs = P(3, 3, min_leaves=3, repeats=False, ops="+*", target_orders=(0, 1), max_order=1)
    rspecs = kernel_specs(rprogs, stride=3 if tier == "quick" else 1, offset=seed)
    # literals that need all 17 significant digits / more than 2^53 / a small exponent
    lprogs = P(2, 1, literals=("0.30000000000000004", "12345678901234567", "1e-5", "0.1"), min_leaves=2, ops="*+",
               repeats=False, target_orders=(0, 1))
    lprogs = [p for p in lprogs if any(l[0] == "t" for l in space.tree_leaves(p[2]))]
    rspecs += kernel_specs(lprogs)
    units += nx_units(rspecs, {"cap": 4, "deviations": False, "with_ac": False, "rounding": True}, "1", "rounding",
                      batch=60)
    totals = [nx_run(run, units)]
    # (b) printers: IR trees through the real ir_to_c / ir_to_llvm, gcc and MCJIT vs the abstract machine
    from ..txwork import printer_tree_count

    ntrees = printer_tree_count(tier)
    parts = max(NPARTS, ntrees // 1500)
    tunits = [{"tier": tier, "part": k, "parts": parts, "tag": f"p{k}"} for k in range(parts)]
    print(f"[C06] (b) printers: {ntrees} IR trees in {parts} batches", flush=True)
    tree_states = tree_valid = 0
    for status, res in run_pool("vx.txwork", "work_printers", rotate(tunits, seed)):
        if status == "skipped":
            continue
        if status != "ok":
            run.report({"signature": {"kind": status}, "what": f"worker failed: {res}", "case": {}})
            continue
        tree_states += res["states"]
        tree_valid += res["validated"]
        for k, v in res["stats"].items():
            run.counters[f"trees: {k}"] += v
        if res["sample"]:
            run.sample(res["sample"], limit=4)
        run.report_all(res["findings"])
    run.coverage["ir_trees_printed"] = ntrees
    # (c) the real back ends (tensora's own cffi compile with its own flags, and MCJIT) on rounding-sensitive sentences
    from ..realbe import MENU

    real_elems = 0
    for status, res in run_pool("vx.realbe", "work", [{"k": k, "prop": "C06"} for k in range(len(MENU))]):
        if status == "skipped":
            continue
        if status != "ok":
            run.report({"signature": {"kind": status}, "what": f"worker failed: {res}", "case": {}})
            continue
        real_elems += res["n"]
        for k, v in res["stats"].items():
            run.counters[k] += v
        for smp in res["samples"]:
            run.sample(smp, limit=5)
        run.report_all(res["findings"])
    cases = sum(t["cases"] for t in totals)
    validated = sum(t["validated"] for t in totals)
    kernels = sum(t["kernels"] for t in totals)
    run.assumptions += [
        "exact-value alphabet: inputs are small dyadic rationals so every sum/product is exact in binary64 and "
        "results are association independent; the rounding sub-sweep (values 0.1, 0.2, ...) exists to expose "
        "re-association",
        "sanitizers cannot instrument MCJIT code: memory safety of the JIT path rests on the abstract machine, the "
        "clang-14+ASan build of the same LLVM text, and the JIT's bit-identical agreement with both",
        "gcc 12 / clang-14 / llvmlite as installed; -O1",
    ]
    run.coverage["nx_stride_beyond_base_space"] = stride
    return run.finish(
        states=cases + tree_states + len(MENU), transitions=cases * 5 + tree_states + real_elems,
        traces_validated=validated + tree_valid + real_elems,
        evaluations=cases + tree_states + len(MENU), distinct_nontrivial=validated // 3 + tree_valid // 2,
        rule=f"(a) every {'2nd ' if base_stride == 2 else ''}kernel of the L<=2,S<=3 program space x all formats "
             f"(offset rotated by VERIF_SEED), plus every {stride}th kernel of the wider space: evaluate/assemble/compute printed by the real ir_to_c and "
             "ir_to_llvm, compiled by gcc (ASan+UBSan), clang-14 (ASan) and MCJIT (compile_module), driven through "
             "the script evaluate; assemble; compute; compute(re-valued) on every joint input structure within the "
             "cap; each backend's return values and pos/crd/vals dumps must equal the abstract machine's, bit for "
             "bit; inputs must be unmodified; every returned array is freed once. states = scripted cases; "
             "traces_validated = (case, backend) pairs that agreed with the AM; non-trivial = cases on which all "
             "three backends ran. (b) every IR tree of the printer space (all depth<=1 expressions, all <=3(4)-leaf "
             "+ - * trees under every int/float typing, comparison/min/max/and/or/bool-to-int nests, assignments incl. "
             "compound-assignment shapes, blocks/branches/loops to nesting depth 2) wrapped in a function, printed by "
             "ir_to_c and ir_to_llvm, compiled by gcc and MCJIT and run on all 128 environments on which the "
             "abstract machine runs it safely: final arrays must be bit-identical. (c) a menu of 8 sentences whose "
             "operands make any fused or re-ordered evaluation visible (d = fl(b*c)), through the real evaluate_cffi "
             "(tensora's own compiler flags) and evaluate_tensora: every element bit-identical to multiply-round-add-round",
        exhaustive=True,
        extra={"kernels_compiled": kernels},
    )


def replay(path):
    from .. import nx

    with open(path) as f:
        rec = json.load(f)
    case = rec["case"]
    if case.get("realbe"):
        from ..realbe import replay as rb_replay

        what = rb_replay(case, "C06")
        print(what)
        if what:
            print(f"VIOLATION property=C06 replay={path}")
            return 1
        return 0
    if "tree" in case:
        from ..txwork import replay_printers

        what = replay_printers(case)
        print(what)
        if what:
            print(f"VIOLATION property=C06 replay={path}")
            return 1
        print("the recorded tree no longer violates the property")
        return 0
    if "program" not in case:
        print("recorded case (re-run the check to re-evaluate it):", json.dumps(case)[:1500])
        return 0
    cap = case.get("capacity", "default")
    os.environ["TENSORA_VERIF_INITIAL_CAPACITY"] = "" if cap == "default" else str(cap)
    spec = (case["program"], case["formats"])
    outs = []
    for i in range(2):
        r = nx.work({"kernels": [spec], "opts": {"cap": 16, "with_ac": True,
                                                 "rounding": rec["signature"].get("kind") == "rounding-mismatch"},
                     "tag": f"replay{i}"})
        outs.append(json.dumps([(f["signature"], f["what"]) for f in r["findings"] if "C06" in f["props"]],
                               sort_keys=True, default=repr))
    if outs[0] != outs[1]:
        print("REPLAY DIVERGED")
        return 2
    print(outs[0][:2000])
    if outs[0] == "[]":
        return 0
    print(f"VIOLATION property=C06 replay={path}")
    return 1
