"""C14 - concurrent evaluations behave like sequential ones (TS engine)."""

from __future__ import annotations

import ctypes
import gc
import itertools
import json
import os
import sys
import time
from collections import Counter

from ..common import NPROC, Run, cap_findings, rotate, run_pool

VISIBLE = {
    "hot": ("compile/_cffi_ownership.py", "compile/_tensor_method.py", "compile/_porcelain.py"),
    "core": ("tensora/compile/", "tensora/tensor.py", "tensora/problem.py"),
    "core+weakref": ("tensora/compile/", "tensora/tensor.py", "tensora/problem.py", "/weakref.py"),
    "codegen": ("tensora/compile/", "tensora/codegen/"),
    "all": ("tensora/", "/weakref.py", "/functools.py"),
}

CALLS = {
    "add": ("a(i) = b(i) + c(i)", "s"),
    "mul": ("a(i) = b(i) * c(i)", "s"),
    "dot": ("a() = b(i) * c(i)", ""),
    "addd": ("a(i) = b(i) + c(i)", "d"),
    # Tensor operators with a Python number (the number differs per thread): ("OP", f(b, c, thread index))
    "opmul": ("OP", lambda b, c, k: b * (2.0 + k)),
    "opradd": ("OP", lambda b, c, k: (3.0 + 2 * k) + c),
    "opsub": ("OP", lambda b, c, k: b - c),
    # a problem no earlier call of the process has seen (fresh tensor name per call)
    "fresh": ("FRESH", "s"),
}

# name -> (thread call names, cache state, backend)
SCENARIOS = {
    "S1-same-warm": (["add", "add"], "warm", "llvm"),
    "S2-same-cold": (["add", "add"], "cold", "llvm"),
    "S3-diff-cold": (["add", "mul"], "cold", "llvm"),
    "S3w-diff-warm": (["add", "mul"], "warm", "llvm"),
    "S6-eval-vs-drop": (["add", "DROP"], "warm", "llvm"),
    "S5-three-mixed": (["add", "mul", "dot"], "mixed", "llvm"),
    # a kernel with growable (int + double) arrays compiled next to one whose only allocation is double
    "S7-sparse-dense-cold": (["add", "addd"], "cold", "llvm"),
    "S7r-dense-sparse-cold": (["addd", "add"], "cold", "llvm"),
    # operators: tensor * number next to number + tensor, and next to a tensor - tensor
    "S8-operators-warm": (["opmul", "opradd"], "warm", "llvm"),
    "S8m-operators-mixed": (["opmul", "opsub", "opradd"], "warm", "llvm"),
    # full kernel cache: thread 0 re-uses the least recently used kernel while thread 1 brings in a never-seen one
    "S9-full-cache-hit-vs-insert": (["add", "fresh"], "full", "llvm"),
    "S9r-full-cache-insert-vs-hit": (["fresh", "add"], "full", "llvm"),
    "S4-cffi-cold": (["add", "mul"], "cold", "cffi"),
    "S4w-cffi-warm": (["add", "add"], "warm", "cffi"),
}


def _f(kind, what, case, **sig):
    return {"props": ["C14"], "signature": {"kind": kind, **sig}, "what": what, "case": case}


class Scenario:
    def __init__(self, name):
        from tensora import Tensor
        from tensora.compile import evaluate_cffi, evaluate_tensora
        from tensora.compile._porcelain import cachable_tensor_method

        from ..rt import raw_decode, raw_image

        self.name = name
        self.calls, self.cache, self.backend = SCENARIOS[name]
        self.cache_clear = cachable_tensor_method.cache_clear
        self.cachable = cachable_tensor_method
        self.fresh = itertools.count()
        self.filler_keys = None
        self.evaluate = evaluate_tensora if self.backend == "llvm" else evaluate_cffi
        self.raw_image = raw_image
        self.raw_decode = raw_decode
        # every thread gets its own inputs (different values AND different sparsity), so that a result
        # handed to the wrong caller is visible even when both threads run the same problem
        self.inputs = []
        for k in range(len(self.calls) + 1):
            # ... and its own dimension: a kernel shared between threads must not mix up sizes either
            n = 4 + k
            b = Tensor.from_dok({(0,): 1.5 + k, (2,): 2.5, (3 - (k % 2),): 1.0 + 2 * k, (n - 1,): 0.5},
                                dimensions=(n,), format="s")
            c = Tensor.from_dok({(2,): 4.0 * (k + 1), ((3 + k) % 4,): 8.0, (n - 1,): 2.0}, dimensions=(n,), format="s")
            self.inputs.append((b, c))
        self.expected = {}
        for k, cname in enumerate(self.calls):
            if cname != "DROP":
                self.expected[k] = self.observe(self.call(cname, k))
        self.holder = []
        # guard zones behind kernel allocations, when the interposer is preloaded (see native/shim.c)
        self.shim = None
        try:
            shim = ctypes.CDLL(None)
            shim.verif_guard(1)
            self.shim = shim
            self.overflows_seen = shim.verif_guard_check()
        except AttributeError:
            pass

    def call(self, cname, k=0):
        expr, fmt = CALLS[cname]
        b, c = self.inputs[k]
        if expr == "OP":
            return fmt(b, c, k)
        if expr == "FRESH":
            n = next(self.fresh)
            return self.evaluate(f"a(i) = b(i) * fresh{n}(i)", fmt, b=b, **{f"fresh{n}": c})
        return self.evaluate(expr, fmt, b=b, c=c)

    def fill_cache(self):
        """Leaves the kernel cache full with the hitting thread's problem as the least recently used entry.  The filler
        problems go through evaluate() once per process (their cache keys are recorded on the way); afterwards a
        fill is 127 direct cache look-ups and at most two compilations."""
        import tensora.compile._porcelain as pc

        info = getattr(pc.cachable_tensor_method, "cache_info", None)
        size = (info().maxsize if info is not None else None) or 128
        hitter = self.calls.index("add")
        self.call("add", hitter)
        if self.filler_keys is None:
            orig = pc.cachable_tensor_method
            seen = []

            def recording(problem, backend):
                seen.append((problem, backend))
                return orig(problem, backend)

            pc.cachable_tensor_method = recording
            try:
                b, c = self.inputs[-1]
                for n in range(size - 1):
                    self.evaluate(f"a(i) = b(i) + filler{n}(i)", "s", b=b, **{f"filler{n}": c})
            finally:
                pc.cachable_tensor_method = orig
            self.filler_keys = seen
        else:
            for problem, backend in self.filler_keys:
                pc.cachable_tensor_method(problem, backend)

    def observe(self, t):
        dims, fmt, stored, problems = self.raw_decode(t)
        return (self.raw_image(t), tuple(problems))

    def setup(self):
        if self.cache == "cold":
            self.cache_clear()
        elif self.cache == "full":
            self.fill_cache()
        elif self.cache == "mixed":
            self.cache_clear()
            self.call(self.calls[0], 0)  # first call warm, the others never seen
        else:
            for k, cname in enumerate(self.calls):
                if cname != "DROP":
                    self.call(cname, k)
        bodies = []
        for cname in self.calls:
            if cname == "DROP":
                self.holder = [self.call("addd", len(self.calls)), self.call("add", len(self.calls))]
                gc.collect()

                def body():
                    self.holder.pop()
                    gc.collect()
                    self.holder.pop()
                    return "dropped"

                bodies.append(body)
            else:
                bodies.append(lambda cname=cname, k=len(bodies): self.observe(self.call(cname, k)))
        return bodies

    def check(self, results):
        probs = []
        for tid, (cname, res) in enumerate(zip(self.calls, results, strict=True)):
            if res is None:
                probs.append(f"thread {tid} ({cname}) produced no result")
            elif res[0] != "ok":
                probs.append(f"thread {tid} ({cname}) raised {res[1]}")
            elif cname == "DROP":
                if res[1] != "dropped":
                    probs.append(f"thread {tid} (drop) returned {res[1]!r}")
            elif res[1] != self.expected[tid]:
                probs.append(f"thread {tid} ({cname}) returned {res[1]} instead of the sequential {self.expected[tid]}")
            elif res[1][1]:
                probs.append(f"thread {tid} ({cname}) result is not well-formed: {res[1][1]}")
        if self.shim is not None:
            n = self.shim.verif_guard_check()
            if n != self.overflows_seen:
                probs.append(f"{n - self.overflows_seen} array(s) allocated by a kernel were written past their end")
                self.overflows_seen = n
        return probs


class CompileGuard:
    """Wraps FFI.compile: memoises shared objects by source text (exploration must not pay for gcc in
    every execution), yields inside the call, and counts threads inside it: two at once violates the
    mutual exclusion the module-level lock exists for (cffi issue 490)."""

    def __init__(self):
        self.inside = 0
        self.max_inside = 0
        self.registry = None

    def install(self, registry):
        import hashlib
        import os
        import shutil

        from cffi import FFI

        from ..common import BUILD_DIR

        self.registry = registry
        orig = FFI.compile
        guard = self
        cache_dir = os.path.join(BUILD_DIR, "ts_cffi")
        os.makedirs(cache_dir, exist_ok=True)

        def compile(ffi_self, tmpdir=".", verbose=0, target=None, debug=None):
            guard.inside += 1
            guard.max_inside = max(guard.max_inside, guard.inside)
            try:
                s = guard.registry.current if guard.registry is not None else None
                if s is not None and s.current_tid() is not None:
                    s.point(s.current_tid(), ("FFI.compile", "inside"))
                src = repr(getattr(ffi_self, "_assigned_source", None))
                key = hashlib.sha1(src.encode()).hexdigest()
                cached = os.path.join(cache_dir, key + ".so")
                if not os.path.exists(cached):
                    built = orig(ffi_self, tmpdir=tmpdir, verbose=verbose, target=target, debug=debug)
                    shutil.copy(built, cached + ".tmp")
                    os.replace(cached + ".tmp", cached)
                out = os.path.join(tmpdir, f"taco_kernel_{key[:8]}_{guard.inside}_{time.time_ns()}.so")
                shutil.copy(cached, out)
                if s is not None and s.current_tid() is not None:
                    s.point(s.current_tid(), ("FFI.compile", "leaving"))
                return out
            finally:
                guard.inside -= 1

        FFI.compile = compile


def work(unit):
    from .. import ts

    t0 = time.time()
    stats = Counter()
    findings = []
    name = unit["scenario"]
    lock = None
    guard = None
    if SCENARIOS[name][2] == "cffi":
        import tensora.compile._compile_cffi as cc

        lock = ts.LockRegistry()
        ts.reload_with_sched_locks(cc, lock)
        guard = CompileGuard()
        guard.install(lock)
    if lock is None:
        lock = ts.LockRegistry()
    import tensora.compile  # noqa: F401 - make sure the modules whose locks are swapped are loaded

    ts.swap_module_locks(lock)
    sc = Scenario(name)
    ex = ts.Explorer(sc, VISIBLE[unit["visible"]], unit["bound"], lock=lock, max_executions=unit.get("max_executions"))
    ex.trace_path = trace_file(unit)
    case = {"scenario": name, "threads": SCENARIOS[name][0], "cache": SCENARIOS[name][1], "backend": SCENARIOS[name][2],
            "visible": unit["visible"], "bound": unit["bound"]}
    # determinism: the default schedule twice must give the same sequence of scheduling decisions
    ex.execute([])  # warm-up: first-use initialisation (dispatch caches, lazy imports) is not part of the scenario
    e1, _ = ex.execute([])
    e2, _ = ex.execute([])
    if [(k, r) for k, r, _ in e1.points] != [(k, r) for k, r, _ in e2.points]:
        findings.append(_f("nondeterministic-harness", f"{name}: two runs of the default schedule differ "
                           f"({len(e1.points)} vs {len(e2.points)} points): uncaptured nondeterminism", case))
        return {"stats": dict(stats), "findings": findings, "executions": 2, "points": 0, "outcomes": 0,
                "preempted": 0, "wall": time.time() - t0, "capped": False}
    ex.executions = 0
    ex.total_points = 0
    ex.explore(stride=(unit["part"], unit["parts"]))
    for kind, what, choices in ex.problems:
        sig = {"scenario": name}
        findings.append(_f(kind, f"{name}: {what}", {**case, "choices": choices}, **sig))
    if guard is not None and guard.max_inside > 1:
        findings.append(_f("compile-not-exclusive", f"{name}: {guard.max_inside} threads were inside FFI.compile at once",
                           case, scenario=name))
    stats[f"{name}/{unit['visible']}/bound{unit['bound']} executions"] += ex.executions
    stats[f"{name}/{unit['visible']} points in default schedule"] = len(e1.points)
    return {"stats": dict(stats), "findings": cap_findings(findings), "executions": ex.executions,
            "points": ex.total_points, "outcomes": len(ex.outcomes), "preempted": ex.preempted_executions,
            "wall": time.time() - t0, "capped": ex.capped}


def trace_file(unit):
    import os

    from ..common import BUILD_DIR

    d = os.path.join(BUILD_DIR, "ts")
    os.makedirs(d, exist_ok=True)
    return os.path.join(d, f"{unit['scenario']}_{unit['visible'].replace('+', '_')}_{unit['bound']}_{unit['part']}.last")


def preload_shim():
    """Workers (spawned) and replays run with the malloc interposer preloaded: blocks allocated by kernel code get
    guard zones, so a kernel miscompiled under a schedule fails the oracle instead of silently damaging the heap."""
    from .c13 import shim_path

    so = shim_path()
    if so not in os.environ.get("LD_PRELOAD", ""):
        os.environ["LD_PRELOAD"] = so
        return True
    return False


def plan(tier):
    """(scenario, visible, bound, parts)"""
    if tier == "quick":
        # the costliest units first (run_pool hands units out in list order): S9 pays for filling the cache once per
        # worker, S7 compiles two kernels per execution with the whole code generator traced
        return [
            ("S9-full-cache-hit-vs-insert", "hot", 1, 8),
            ("S7-sparse-dense-cold", "codegen", 1, 24),
            ("S1-same-warm", "hot", 2, 12),
            ("S3w-diff-warm", "hot", 2, 12),
            ("S6-eval-vs-drop", "core+weakref", 2, 8),
            ("S2-same-cold", "core", 1, 6),
            ("S3-diff-cold", "core", 1, 6),
            ("S4-cffi-cold", "core", 1, 6),
            ("S1-same-warm", "core+weakref", 1, 2),
            ("S3w-diff-warm", "core+weakref", 1, 2),
            ("S8-operators-warm", "core", 1, 4),
        ]
    # Cheapest and newest coverage first, the bound-2 sweeps over wide visible sets last, all in small work units: under
    # the default 9000 s budget of the thorough tier the early configurations complete and whatever part of the late
    # ones does not fit is reported as not explored (a bound-2 sweep with ~650 scheduling points is ~200 k executions)
    return [
        ("S9-full-cache-hit-vs-insert", "core", 1, 16),
        ("S9r-full-cache-insert-vs-hit", "core", 1, 16),
        ("S8-operators-warm", "core+weakref", 1, 8),
        ("S8m-operators-mixed", "core", 1, 8),
        ("S2-same-cold", "core+weakref", 1, 16),
        ("S3-diff-cold", "core+weakref", 1, 16),
        ("S5-three-mixed", "core", 1, 16),
        ("S4-cffi-cold", "core", 1, 8),
        ("S7r-dense-sparse-cold", "codegen", 1, 24),
        ("S3-diff-cold", "codegen", 1, 24),
        ("S7-sparse-dense-cold", "codegen", 1, 24),
        ("S4w-cffi-warm", "core", 2, 32),
        ("S8-operators-warm", "hot", 2, 32),
        ("S1-same-warm", "hot", 2, 24),
        ("S3w-diff-warm", "hot", 2, 24),
        ("S2-same-cold", "hot", 2, 64),
        ("S3-diff-cold", "hot", 2, 64),
        ("S6-eval-vs-drop", "core+weakref", 2, 32),
        ("S7-sparse-dense-cold", "all", 1, 64),
        ("S2-same-cold", "all", 1, 64),
        ("S1-same-warm", "core+weakref", 2, 128),
        ("S3w-diff-warm", "core+weakref", 2, 128),
    ]


def run(tier, seed):
    run = Run("C14", tier, seed)
    units = []
    for sc, vis, bound, parts in plan(tier):
        for part in range(parts):
            units.append({"scenario": sc, "visible": vis, "bound": bound, "part": part, "parts": parts})
    # no rotation by seed here: the order is by cost, and every unit is explored completely whatever the order
    print(f"[C14] {len(units)} work units over {len(plan(tier))} (scenario, visible set, bound) configurations", flush=True)
    executions = points = preempted = 0
    outcomes = 0
    capped = False
    preload_shim()
    for unit, (status, res) in zip(units, run_pool("vx.checks.c14", "work", units, task_timeout=7200), strict=True):
        if status == "skipped":
            continue
        if status != "ok":
            choices = None
            try:
                with open(trace_file(unit)) as f:
                    choices = json.loads(f.read().replace("'", '"'))
            except (OSError, ValueError):
                pass
            sc = unit["scenario"]
            run.report({"signature": {"kind": status, "scenario": sc},
                        "what": f"{sc}: the process crashed or hung under a schedule (a crash is a violation of C14): "
                                f"{res}; last schedule started: {choices}",
                        "case": {"scenario": sc, "threads": SCENARIOS[sc][0], "cache": SCENARIOS[sc][1],
                                 "backend": SCENARIOS[sc][2], "visible": unit["visible"], "bound": unit["bound"],
                                 "choices": choices}})
            continue
        cfg = f"{unit['scenario']}/{unit['visible']}/bound{unit['bound']}"
        run.counters[f"{cfg} CPU seconds (all parts)"] += round(res["wall"])
        executions += res["executions"]
        points += res["points"]
        preempted += res["preempted"]
        outcomes = max(outcomes, res["outcomes"])
        capped = capped or res["capped"]
        for k, v in res["stats"].items():
            if "points in default" in k:
                run.counters[k] = v
            else:
                run.counters[k] += v
        run.report_all(res["findings"])
    os.environ.pop("LD_PRELOAD", None)
    run.sample({"scenario": "S3w-diff-warm", "threads": ["evaluate a(i) = b(i) + c(i)", "evaluate a(i) = b(i) * c(i)"],
                "schedule": "choice sequence, e.g. [0]*137 + [1] = preempt thread 0 at its 138th scheduling point",
                "oracle": "each thread's raw result arrays equal the sequential result; no exception/deadlock/hang"})
    run.assumptions += [
        "scheduling points are Python line events in the visible files (and lock / FFI.compile operations); switches "
        "inside a single line or inside code outside the visible set are not explored (thorough validates the "
        "independence assumption by making every tensora line visible at bound 1)",
        "true parallelism inside GIL-released native code (the kernel itself, gcc) is serialised by the cooperative "
        "scheduler and is NOT decided by this check",
        "the garbage collector is disabled during an execution (collections happen between executions or where a "
        "scenario calls gc.collect itself), otherwise weak-reference callbacks would be uncaptured nondeterminism",
    ]
    return run.finish(
        states=executions, transitions=points, traces_validated=executions, evaluations=executions,
        distinct_nontrivial=preempted,
        rule="depth-first enumeration of ALL thread schedules of each scenario within the preemption bound "
             "(iterative context bounding; executions always run to completion; a switch away from a runnable thread "
             "costs one preemption): " + "; ".join(f"{s} [{v}] bound {b}" for s, v, b, _ in plan(tier)) +
             ". Oracle per complete schedule: no exception, no deadlock/hang, each call returns exactly the raw arrays "
             "it returns alone, results well-formed, FFI.compile never entered by two threads. states = complete "
             "executions; transitions = scheduling decisions; non-trivial = executions with at least one preemption",
        exhaustive=not capped,
        extra={"max_distinct_outcomes_per_unit": outcomes},
    )


def replay(path):
    from .. import ts

    with open(path) as f:
        rec = json.load(f)
    case = rec["case"]
    name = case["scenario"]
    if preload_shim():
        os.execv(sys.executable, [sys.executable, "-m", "vx.main", "C14", "--replay", path])
    lock = None
    if case.get("backend") == "cffi":
        import tensora.compile._compile_cffi as cc

        lock = ts.LockRegistry()
        ts.reload_with_sched_locks(cc, lock)
        CompileGuard().install(lock)
    if lock is None:
        lock = ts.LockRegistry()
    import tensora.compile  # noqa: F401

    ts.swap_module_locks(lock)
    sc = Scenario(name)
    ex = ts.Explorer(sc, VISIBLE[case["visible"]], case["bound"], lock=lock)
    outs = []
    for _ in range(2):
        ex.problems = []
        ex.run_one(case.get("choices", []))
        outs.append(repr(ex.problems))
    if outs[0] != outs[1]:
        print("REPLAY DIVERGED", outs)
        return 2
    print(outs[0][:1500])
    if ex.problems:
        print(f"VIOLATION property=C14 replay={path}")
        return 1
    return 0
