"""Common driver of the checks decided by the kernel explorer (C01-C05, C07a, C16)."""

from __future__ import annotations

import json

from .. import kspace, kx, space
from ..common import Run, rotate, run_pool


def native_phase(run, pid, tier, seed, stride):
    """Replays a declared stride of the base-space kernels natively (gcc ASan+UBSan, clang ASan, MCJIT) through the
    script evaluate; assemble; compute; compute' and compares with the abstract machine: the conformance evidence
    of this check's own model runs (C06 does the same for the whole base space)."""
    from .c06 import kernel_specs, nx_units

    base = space.enumerate_programs(2, 3)
    specs = kernel_specs(base, stride=stride, offset=seed)
    units = nx_units(specs, {"cap": 12, "deviations": True, "with_ac": True}, "1", "native")
    print(f"[{pid}] native replay: {len(specs)} kernel requests (every {stride}th of the base space) in {len(units)} "
          "batches", flush=True)
    validated = 0
    for status, res in run_pool("vx.nx", "work", rotate(units, seed)):
        if status == "skipped":
            continue
        if status != "ok":
            run.report({"signature": {"kind": "worker-exception"}, "what": f"harness worker failed: {res}", "case": {}})
            continue
        validated += res["validated"]
        run.counters["native: cases"] += res["cases"]
        for f in res["findings"]:
            if f["signature"].get("kind") in ("sanitizer", "native-crash", "native-mismatch", "input-modified", "fault"):
                f = {**f, "props": sorted(set(f["props"]) | {pid})}
                run.report(f)
    run.coverage["native_replay"] = f"every {stride}th kernel of the L<=2,S<=3 space, offset VERIF_SEED"
    return validated


def run_kx(pid, tier, seed, *, oracles, capacities, flavour, rule, assumptions, opts_extra=None,
           extra_phase=None, nontrivial_rule=None, chunk=32, native_stride=None):
    run = Run(pid, tier, seed)
    progs = kspace.programs(tier, flavour)
    opts = {"oracles": list(oracles), "pid": pid, "cap": 64 if tier == "quick" else 160,
            "deviations": True}
    if opts_extra:
        opts.update(opts_extra)
    units = rotate(kx.make_units(progs, opts, chunk=chunk), seed)
    tot = {"states": 0, "transitions": 0, "nontrivial": 0}
    validated = 0
    for cap in capacities:
        env = {"TENSORA_VERIF_INITIAL_CAPACITY": "" if cap == "default" else str(cap)}
        print(f"[{pid}] capacity={cap}: {len(progs)} programs, {len(units)} work units", flush=True)
        results = run_pool("vx.kx", "work", units, env=env)
        t = kx.merge(results, run)
        for k in tot:
            tot[k] += t[k]
    if extra_phase is not None:
        validated += extra_phase(run, tier, seed, tot)
    if native_stride:
        validated += native_phase(run, pid, tier, seed, native_stride)
    run.assumptions.extend(assumptions)
    run.coverage["programs"] = len(progs)
    run.coverage["program_space"] = kspace.describe(tier, flavour)
    run.coverage["capacities"] = [str(c) for c in capacities]
    run.coverage["structure_cap_per_dimension_vector"] = opts["cap"]
    kernels = run.counters.get("kernels generated", 0)
    return run.finish(
        states=tot["states"],
        transitions=tot["transitions"],
        traces_validated=validated,
        evaluations=tot["states"],
        distinct_nontrivial=tot["nontrivial"],
        rule=rule + " | non-trivial = " + (nontrivial_rule or
             "distinct (kernel, dimensions, joint structure, capacity) states whose evaluate run executed at "
             "least one loop iteration with at least one stored input entry"),
        exhaustive=True,
        extra={"kernels_generated": kernels},
    )


def replay_kx(pid, path, oracles, opts_extra=None):
    """Re-execute exactly one recorded case, twice, and insist on identical observations."""
    import os

    with open(path) as f:
        rec0 = json.load(f)
    if "program" not in rec0.get("case", {}):
        print("recorded case (re-run the check to re-evaluate it):", json.dumps(rec0.get("case"))[:1500])
        print(rec0.get("what"))
        return 1 if rec0.get("what") else 0

    from tensora.problem import Problem

    from ..tensors import Structure, parse_fmt

    with open(path) as f:
        rec = json.load(f)
    case = rec["case"]
    cap = case.get("capacity", "default")
    if cap != "default":
        os.environ["TENSORA_VERIF_INITIAL_CAPACITY"] = str(cap)
    prog = space.prog_from_json(case["program"])
    names = list(case["formats"])
    fmts = {n: parse_fmt(s) for n, s in case["formats"].items()}
    asg = space.to_assignment(prog)
    obs = []
    for _ in range(2):
        status, module = kx.generate(Problem(asg, fmts), kx.KINDS3)
        if status == "skipped":
            continue
        if status != "ok":
            obs.append((status, repr(module)))
            continue
        kc = kx.KernelCase(prog, names, fmts, module)
        if "inputs" not in case:
            obs.append(("generated",))
            continue
        DIM = {k: int(v) for k, v in case["dimensions"].items()}
        joint = {n: Structure.from_description(d) for n, d in case["inputs"].items()}
        from collections import Counter

        stats = Counter()
        opts = {"oracles": list(oracles), "pid": pid, **(opts_extra or {})}
        fs, einfo = kx.run_evaluate(kc, DIM, joint, opts, stats, {})
        if "ac" in oracles:
            fa, _ = kx.run_assemble_compute(kc, DIM, joint, opts, stats, einfo)
            fs = fs + fa
        fs = [f for f in fs if pid in f["props"]]
        obs.append(json.dumps([(f["signature"], f["what"]) for f in fs], sort_keys=True, default=repr))
    if obs[0] != obs[1]:
        print("REPLAY DIVERGED: the two executions of the recorded case differ", obs)
        return 2
    print(f"replay of {path}: {obs[0]}")
    if obs[0] in ("[]", ("generated",)):
        print("the recorded case no longer violates the property")
        return 0
    print(f"VIOLATION property={pid} replay={path}")
    return 1
