"""C05 - generated kernels are memory-safe, leave inputs untouched and terminate."""

from __future__ import annotations

from ._kxcheck import replay_kx, run_kx

ORACLES = ["memory", "ac"]


def run(tier, seed):
    return run_kx(
        "C05", tier, seed,
        oracles=ORACLES,
        capacities=[1, 2, "default"] if tier == "quick" else [1, 2, 3, "default"],
        flavour="light" if tier == "quick" else "full",
        opts_extra={"recomputes": 1},
        rule="every kernel (evaluate, assemble, compute-after-assemble) x dimension vectors incl. zero-sized and 3 "
             "x every joint well-formed input structure incl. stored-but-empty segments x initial capacities; every "
             "load/store/realloc/step monitored on the abstract machine: bounds, use-after-realloc, NULL, reads of "
             "uninitialised cells or locals, stores/reallocs of input blocks or of the frozen structure, attribute "
             "stores on inputs, int32 overflow, typing of conditions/indexes, step budget; return value 0; every "
             "returned array live, long enough and initialised over the extent the structure describes",
        native_stride=12 if tier == "quick" else 4,
        assumptions=[
            "element counts fit int32 (inputs are tiny), so overflow can only come from the kernel's own arithmetic",
            "the abstract machine implements the IR semantics of both printers; C06 additionally runs the emitted C "
            "under ASan+UBSan and the emitted LLVM under ASan",
        ],
    )


def replay(path):
    return replay_kx("C05", path, ORACLES, {"recomputes": 1})
