"""C09 - Tensor construction and read-back are lossless for every format (DX engine).

Breadth-first search over Tensor histories on the real objects.  Initial states: every format of
order 0..3 (4 in thorough) x dimension vectors x every subset of cells within the bound x every
constructor x input orders/duplicates/explicit zeros.  Transitions: to_format(f) for every format f
of the order, pickle round trip, to_dok -> from_dok.  Reference model: a dict.
"""

from __future__ import annotations

import itertools
import json
import pickle
import time
from collections import Counter

from ..common import cap_findings, too_many, Run, rotate, run_pool
from ..tensors import all_formats, fmt_str, parse_fmt, structure_from_coords


def lol_from(model, dims):
    def rec(prefix, d):
        if d == len(dims):
            return model.get(tuple(prefix), 0.0)
        return [rec(prefix + [x], d + 1) for x in range(dims[d])]

    return rec([], 0)


def expected_image(fmt, dims, model):
    """(taco_indices, taco_vals, stored coords in order) the canonical structure must have."""
    st = structure_from_coords(fmt, dims, list(model))
    indices = [[] if lv is None else [list(lv[0]), list(lv[1])] for lv in st.levels]
    coords = st.coords()
    vals = [model.get(c, 0.0) for c in coords]
    return indices, vals, coords


def observe(t):
    return {
        "order": t.order,
        "dimensions": tuple(t.dimensions),
        "format": fmt_str(t.format),
        "indices": t.taco_indices,
        "vals": t.taco_vals,
        "items": list(t.items()),
        "dok": t.to_dok(),
        "dok_explicit": t.to_dok(explicit_zeros=True),
    }


def check_tensor(t, fmt, dims, model, what, case, findings, stats, zeros_optional=False):
    """Compare every observable of t with the model; append findings.

    zeros_optional: the constructor reads a dense nested list, for which nothing says whether a 0.0 becomes a
    stored explicit zero; then only the non-zero content and the canonicity of whatever is stored are demanded."""
    try:
        obs = observe(t)
    except Exception as e:  # noqa: BLE001
        findings.append(_f("read-back-raises", f"{what}: reading the tensor raised {type(e).__name__}: {e}", case,
                           exception=type(e).__name__))
        return None
    if zeros_optional:
        from ..rt import raw_decode

        _d, _f2, stored_now, problems = raw_decode(t)
        if problems:
            findings.append(_f("readback-structure", f"{what}: stored structure is not canonical: {problems}", case,
                               self_inverse_ordering=True))
            return None
        model = {**{c: 0.0 for c in stored_now}, **{c: v for c, v in model.items() if v != 0.0}}
    indices, vals, coords = expected_image(fmt, dims, model)
    nz = {c: v for c, v in model.items() if v != 0.0}
    bad = None
    if obs["order"] != len(dims) or obs["dimensions"] != tuple(dims) or obs["format"] != fmt_str(fmt):
        bad = ("metadata", f"order/dimensions/format = {obs['order']}/{obs['dimensions']}/{obs['format']}")
    elif obs["indices"] != indices:
        bad = ("structure", f"taco_indices {obs['indices']} != canonical {indices}")
    elif obs["vals"] != vals:
        bad = ("vals", f"taco_vals {obs['vals']} != {vals}")
    elif obs["dok"] != nz:
        bad = ("to_dok", f"to_dok() {obs['dok']} != {nz}")
    elif obs["dok_explicit"] != dict(zip(coords, vals, strict=True)):
        bad = ("to_dok-explicit", f"to_dok(explicit_zeros=True) {obs['dok_explicit']} != {dict(zip(coords, vals))}")
    elif sorted(obs["items"]) != sorted(zip(coords, vals, strict=True)) or len(obs["items"]) != len(coords):
        bad = ("items", f"items() {obs['items']} != {list(zip(coords, vals))}")
    if bad:
        stats[f"mismatch {bad[0]}"] += 1
        perm = tuple(fmt.ordering)
        inv = tuple(perm.index(i) for i in range(len(perm)))
        findings.append(_f("readback-" + bad[0], f"{what}: {bad[1]}", case, self_inverse_ordering=(perm == inv)))
        return None
    return obs


def _f(kind, what, case, **sig):
    return {"props": ["C09"], "signature": {"kind": kind, **sig}, "what": what, "case": case}


def entry_variants(cells, small):
    """Input orders / duplicates / explicit zeros for one cell subset. Yields (tag, [(coord, value)])."""
    base = [(c, float(k) + 1.5) for k, c in enumerate(cells)]
    yield "sorted", base
    if len(base) >= 2:
        yield "reversed", list(reversed(base))
    if small and 2 < len(base) <= 3:
        for k, perm in enumerate(itertools.permutations(base)):
            if k not in (0,):
                yield f"perm{k}", list(perm)
    if base:
        yield "duplicate", base + [(base[0][0], 4.25)]
        yield "dup-cancel", base + [(base[-1][0], -base[-1][1])]
        yield "explicit-zero", [(base[0][0], 0.0)] + base[1:]


def model_of(entries):
    m = {}
    for c, v in entries:
        m[c] = m.get(c, 0.0) + v
    return m


def work(unit):
    from tensora import Tensor

    t0 = time.time()
    fmt = parse_fmt(unit["format"])
    order = len(fmt.modes)
    opts = unit["opts"]
    stats = Counter()
    findings = []
    samples = []
    states = set()
    transitions = 0
    formats = all_formats(order)
    for dims in itertools.product(opts["dim_values"], repeat=order):
        cells = list(itertools.product(*[range(d) for d in dims]))
        if len(cells) > opts["max_cells"]:
            continue
        for r in range(len(cells) + 1):
            for sub in itertools.combinations(cells, r):
                for tag, entries in entry_variants(list(sub), opts["perms"]):
                    model = model_of(entries)
                    coords = [c for c, _ in entries]
                    values = [v for _, v in entries]
                    case = {"format": fmt_str(fmt), "dimensions": list(dims), "entries": [[list(c), v] for c, v in entries],
                            "variant": tag}
                    ctors = {
                        "from_aos": lambda: Tensor.from_aos(coords, values, dimensions=dims, format=fmt),
                    }
                    if order >= 1:
                        # a structure-of-arrays has no way to spell the coordinate of a scalar
                        ctors["from_soa"] = lambda: Tensor.from_soa(
                            tuple(zip(*coords, strict=True)) if coords else tuple([] for _ in dims),
                            values, dimensions=dims, format=fmt)
                    if len(set(coords)) == len(coords):
                        ctors["from_dok"] = lambda: Tensor.from_dok(dict(entries), dimensions=dims, format=fmt)
                        if tag == "sorted":
                            # from_lol reads a dense nested list; zeros are not stored
                            ctors["from_lol"] = lambda: Tensor.from_lol(lol_from(model, dims), dimensions=dims, format=fmt)
                    first = None
                    for cname, ctor in ctors.items():
                        stats["constructions"] += 1
                        transitions += 1
                        c2 = {**case, "constructor": cname}
                        mdl = model
                        if cname == "from_lol":
                            mdl = {c: v for c, v in model.items() if v != 0.0}
                            if order == 0 and not mdl:
                                mdl = {(): 0.0}
                        if order == 0 and not model:
                            mdl = {}
                        try:
                            t = ctor()
                        except Exception as e:  # noqa: BLE001
                            findings.append(_f("constructor-raises", f"{cname} raised {type(e).__name__}: {e}", c2,
                                               exception=type(e).__name__))
                            continue
                        obs = check_tensor(t, fmt, dims, mdl, cname, c2, findings, stats,
                                           zeros_optional=(cname == "from_lol"))
                        if obs is None:
                            continue
                        if first is None and cname != "from_lol":
                            first = (t, obs)
                    if first is None:
                        continue
                    t, obs = first
                    key = (fmt_str(fmt), dims, tuple(sorted(model.items())))
                    if key in states:
                        continue
                    states.add(key)
                    nz = {c: v for c, v in model.items() if v != 0.0}
                    # transition: pickle round trip (keeps explicit zeros)
                    transitions += 1
                    try:
                        t2 = pickle.loads(pickle.dumps(t))
                        o2 = observe(t2)
                        if o2 != obs:
                            findings.append(_f("pickle-changes", f"pickle round trip changed the tensor: {o2} != {obs}",
                                               {**case, "transition": "pickle"}))
                    except Exception as e:  # noqa: BLE001
                        findings.append(_f("pickle-raises", f"pickle round trip raised {type(e).__name__}: {e}",
                                           {**case, "transition": "pickle"}, exception=type(e).__name__))
                    # transition: to_dok -> from_dok
                    transitions += 1
                    try:
                        t3 = Tensor.from_dok(t.to_dok(), dimensions=t.dimensions, format=t.format)
                        check_tensor(t3, fmt, dims, nz if (order or nz) else {}, "to_dok->from_dok",
                                     {**case, "transition": "dok"}, findings, stats)
                    except Exception as e:  # noqa: BLE001
                        findings.append(_f("transition-raises", f"to_dok->from_dok raised {type(e).__name__}: {e}",
                                           {**case, "transition": "dok"}, exception=type(e).__name__))
                    # transitions: to_format(f) for every format of this order, then back
                    if tag in opts["convert_variants"]:
                        for f2 in formats:
                            transitions += 1
                            c3 = {**case, "transition": f"to_format({fmt_str(f2)})"}
                            try:
                                t4 = t.to_format(f2 if unit["seed"] % 2 == 0 else f2.deparse())
                                o4 = check_tensor(t4, f2, dims, nz if (order or nz) else {}, "to_format", c3, findings, stats)
                                if o4 is not None and opts["depth"] >= 2:
                                    transitions += 1
                                    t5 = t4.to_format(fmt)
                                    check_tensor(t5, fmt, dims, nz if (order or nz) else {}, "to_format;to_format",
                                                 {**c3, "transition2": f"to_format({fmt_str(fmt)})"}, findings, stats)
                            except Exception as e:  # noqa: BLE001
                                findings.append(_f("transition-raises", f"to_format raised {type(e).__name__}: {e}", c3,
                                                   exception=type(e).__name__))
                    if len(samples) < 1 and len(sub) >= 2 and tag == "reversed":
                        samples.append({**case, "observed": {k: (v if k != "items" else [list(map(list, [i[0]])) + [i[1]] for i in v])
                                                               for k, v in obs.items() if k in ("indices", "vals")}})
                    if too_many(findings):
                        break
                if too_many(findings):
                    break
            if too_many(findings):
                break
        # out-of-range coordinates: every component position x {dim, dim+1, -1} x every in-range choice
        # of the other components x every set of <= 2 in-range companions (so that the offending
        # entry lands at the start, in the interior and at the end of the stored arrays)
        if order >= 1 and all(d >= 1 for d in dims) and len(cells) <= opts["max_cells"]:
            companions_pool = [[]] + [[c] for c in cells] + [list(p) for p in itertools.combinations(cells, 2)]
            if order >= 3:
                companions_pool = companions_pool[:: 3]
            if order >= 4:
                companions_pool = [[], [cells[0]], [cells[-1]]]
            for pos in range(order):
                level = fmt.ordering.index(pos)
                mode = fmt.modes[level].name
                others = [range(dims[k]) if k != pos else [None] for k in range(order)]
                for badv in (dims[pos], -1, dims[pos] + 1):
                    for rest in itertools.product(*others):
                        c = tuple(badv if k == pos else rest[k] for k in range(order))
                        for comp in companions_pool:
                            entries = [(cc, 1.5 + k) for k, cc in enumerate(comp)] + [(c, 2.5)]
                            case = {"format": fmt_str(fmt), "dimensions": list(dims),
                                    "entries": [[list(cc), v] for cc, v in entries], "bad_component": pos,
                                    "level_mode": mode}
                            for cname in ("from_dok", "from_aos", "from_soa"):
                                stats["out-of-range probes"] += 1
                                transitions += 1
                                try:
                                    if cname == "from_dok":
                                        t = Tensor.from_dok(dict(entries), dimensions=dims, format=fmt)
                                    elif cname == "from_aos":
                                        t = Tensor.from_aos([e[0] for e in entries], [e[1] for e in entries],
                                                            dimensions=dims, format=fmt)
                                    else:
                                        t = Tensor.from_soa(tuple(zip(*[e[0] for e in entries], strict=True)),
                                                            [e[1] for e in entries], dimensions=dims, format=fmt)
                                except Exception:  # noqa: BLE001
                                    stats["out-of-range rejected"] += 1
                                    continue
                                stats["out-of-range accepted"] += 1
                                findings.append(_f("out-of-range-accepted",
                                                   f"{cname} accepted coordinate {c} outside dimensions {dims} "
                                                   f"(component lands in a {mode} level); read-back: {t.to_dok()}",
                                                   {**case, "constructor": cname}, level_mode=mode,
                                                   negative=badv < 0))
    return {"stats": dict(stats), "findings": cap_findings(findings), "samples": samples, "states": len(states),
            "transitions": transitions, "wall": time.time() - t0}


def run(tier, seed):
    run = Run("C09", tier, seed)
    orders = (0, 1, 2, 3) if tier == "quick" else (0, 1, 2, 3, 4)
    units = []
    for o in orders:
        for fmt in all_formats(o):
            if o <= 3:
                if tier == "quick":
                    opts = {"dim_values": (0, 1, 2), "max_cells": 8, "perms": True,
                            "convert_variants": ("sorted", "explicit-zero"), "depth": 2}
                else:
                    # thorough: a dimension of 3 for orders <= 2 (9 cells), more variants converted
                    opts = {"dim_values": (0, 1, 2, 3) if o <= 2 else (0, 1, 2), "max_cells": 9 if o <= 2 else 8,
                            "perms": True, "convert_variants": ("sorted", "explicit-zero", "duplicate"), "depth": 2}
            else:
                opts = {"dim_values": (1, 2), "max_cells": 8, "perms": False, "convert_variants": (), "depth": 1}
            units.append({"format": fmt_str(fmt), "opts": opts, "seed": seed})
    units = rotate(units, seed)
    print(f"[C09] {len(units)} formats", flush=True)
    results = run_pool("vx.checks.c09", "work", units)
    states = transitions = 0
    for status, res in results:
        if status == "skipped":
            continue
        if status != "ok":
            run.report({"signature": {"kind": "worker-exception"}, "what": f"harness worker failed: {res}", "case": {}})
            continue
        for k, v in res["stats"].items():
            run.counters[k] += v
        states += res["states"]
        transitions += res["transitions"]
        for s in res["samples"]:
            run.sample(s, limit=4)
        run.report_all(res["findings"])
    run.assumptions += ["values are distinct small dyadic floats; duplicates are summed exactly",
                        "every transition is applied to every canonical state; to_format goes through to_dok, so the "
                        "successor of any state is again one of the enumerated initial states (closure at depth 1; "
                        "depth 2 is nevertheless executed: to_format(f) then to_format(original))"]
    return run.finish(
        states=states, transitions=transitions, traces_validated=run.counters.get("constructions", 0),
        evaluations=run.counters.get("constructions", 0) + run.counters.get("out-of-range probes", 0),
        distinct_nontrivial=states,
        rule="every format of the orders in the tier x every dimension vector over the tier's values x every subset "
             "of cells (<= max_cells) x constructors {from_dok, from_aos, from_soa, from_lol} x input variants "
             "{sorted, reversed, all permutations (<=3 entries), duplicate, cancelling duplicate, explicit zero}; "
             "observables order/dimensions/format/taco_indices/taco_vals/items/to_dok compared with a dict model and "
             "the canonical structure; transitions pickle, to_dok->from_dok, to_format(every format) and back; "
             "out-of-range probes at every component position x {dim, dim+1, -1}. states = distinct canonical "
             "(format, dimensions, content) states; non-trivial = the same (each is checked through >= 3 "
             "constructors and all transitions)",
        exhaustive=True,
    )


def replay(path):
    from tensora import Tensor

    with open(path) as f:
        rec = json.load(f)
    case = rec["case"]
    fmt = parse_fmt(case["format"])
    dims = tuple(case["dimensions"])
    entries = [(tuple(c), v) for c, v in case["entries"]]
    outs = []
    for _ in range(2):
        try:
            t = Tensor.from_aos([c for c, _ in entries], [v for _, v in entries], dimensions=dims, format=fmt)
            outs.append(repr((t.taco_indices, t.taco_vals, sorted(t.items()))))
        except Exception as e:  # noqa: BLE001
            outs.append(f"{type(e).__name__}: {e}")
    if outs[0] != outs[1]:
        print("REPLAY DIVERGED")
        return 2
    findings = []
    if rec["signature"]["kind"] == "out-of-range-accepted":
        bad = not outs[0].split(":")[0].endswith("Error")
    else:
        stats = Counter()
        t = Tensor.from_aos([c for c, _ in entries], [v for _, v in entries], dimensions=dims, format=fmt)
        check_tensor(t, fmt, dims, model_of(entries), "replay", case, findings, stats)
        bad = bool(findings)
    print(outs[0], [f["what"] for f in findings])
    if bad:
        print(f"VIOLATION property=C09 replay={path}")
        return 1
    return 0
