"""C07 - peephole optimisation never changes what a kernel computes."""

from __future__ import annotations

from ._kxcheck import replay_kx, run_kx

ORACLES = ["peephole"]


def run(tier, seed):
    return run_kx(
        "C07", tier, seed,
        oracles=ORACLES,
        capacities=[1] if tier == "quick" else [1, "default"],
        flavour="light" if tier == "quick" else "full",
        rule="(a) every kernel the generator produces, before (TENSORA_VERIF_NO_PEEPHOLE hook) vs after the peephole "
             "pass, evaluate and assemble+compute, on every dimension vector x joint structure: same return value, "
             "same output tensor, same contents of every live kernel array, optimised access set a subset of the "
             "original's, optimised run faults nowhere the original does not",
        assumptions=["float equality is equality of polynomials over Q (numerical equality, sign of zero ignored)"],
    )


def replay(path):
    return replay_kx("C07", path, ORACLES)
