"""C07 - peephole optimisation never changes what a kernel computes."""

from __future__ import annotations

from ..common import rotate, run_pool
from ._kxcheck import replay_kx, run_kx

ORACLES = ["peephole"]


def tree_phase(run, tier, seed, tot):
    """C07(b): every well-typed IR tree within the bound, peephole output vs input on the AM."""
    nblocks = 32 if tier == "quick" else 64
    units = [{"what": "d1"}, {"what": "families"}]
    units += [{"what": "statements", "part": k, "parts": 8, "depth2": True} for k in range(8)]
    # depth-2 expressions: quick explores every 4th left-operand block (all right operands), thorough all
    blocks = range(nblocks) if tier != "quick" else range(seed % 4, nblocks, 4)
    units += [{"what": "d2", "block": b, "nblocks": nblocks} for b in blocks]
    print(f"[C07] (b) IR tree explorer: {len(units)} work units", flush=True)
    trees = 0
    for status, res in run_pool("vx.txwork", "work_peephole", rotate(units, seed)):
        if status == "skipped":
            continue
        if status != "ok":
            run.report({"signature": {"kind": status}, "what": f"worker failed: {res}", "case": {}})
            continue
        trees += res["n"]
        for k, v in res["stats"].items():
            run.counters["trees: " + k] += v
        run.report_all(res["findings"])
    evals = run.counters["trees: expression evaluations"] + run.counters["trees: statement evaluations"]
    tot["states"] += trees
    tot["transitions"] += evals
    tot["nontrivial"] += run.counters["trees: expressions rewritten"] + run.counters["trees: statements rewritten"]
    run.coverage["ir_trees"] = trees
    run.coverage["ir_tree_space"] = (
        "expressions of depth <= 2 over {0,1,2, 0.0,1.0,2.5, true,false, xi,yi (int), xf (float), xb (bool), a[xi], "
        "v[xi]} with every operator of ir/ast.py that types" + ("" if tier != "quick" else " (depth 2: every 4th "
        "left-operand block, rotated by VERIF_SEED)") + "; all trees with <= 4 leaves over + - * with every int/float "
        "typing of the leaves; comparison/min/max/and/or/bool-to-int nests; statements: assignments incl. x = x and "
        "the compound-assignment shapes, declaration-assignments, blocks (<= 2, empty, commented), branches (either "
        "arm possibly empty, constant or variable condition), loops (constant-false, counted, empty body), nesting "
        "depth <= 2; environments ints {-1,0,1,2,46341}, floats {-1.5,0.0,1.0,2.5}, bools, arrays of length 3")
    return 0


def run(tier, seed):
    return run_kx(
        "C07", tier, seed,
        oracles=ORACLES,
        capacities=[1] if tier == "quick" else [1, "default"],
        flavour="light" if tier == "quick" else "full",
        rule="(a) every kernel the generator produces, before (TENSORA_VERIF_NO_PEEPHOLE hook) vs after the peephole "
             "pass, evaluate and assemble+compute, on every dimension vector x joint structure: same return value, "
             "same output tensor, same contents of every live kernel array, optimised access set a subset of the "
             "original's, optimised run faults nowhere the original does not; (b) every well-typed IR expression / "
             "statement tree within the bound (see ir_tree_space): peephole_expression / peephole_statement output vs "
             "input on every environment where the original runs safely - same final state of all variables and "
             "arrays, no new access, no new fault",
        assumptions=["float equality is equality of polynomials over Q (numerical equality, sign of zero ignored)",
                     "(b) states in which the original tree is unsafe on the abstract machine (overflow, out-of-bounds, "
                     "non-termination within the step budget) are excluded, as the property says"],
        extra_phase=tree_phase,
    )


def replay(path):
    import json

    with open(path) as f:
        rec = json.load(f)
    if "tree" in rec.get("case", {}):
        from ..txwork import replay_peephole

        what = replay_peephole(rec["case"])
        print(what)
        if what:
            print(f"VIOLATION property=C07 replay={path}")
            return 1
        print("the recorded tree no longer violates the property")
        return 0
    return replay_kx("C07", path, ORACLES)
