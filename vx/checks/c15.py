"""C15 - generated code is a pure function of the request; caching is invisible.

(histories)       breadth-first search over the order in which a menu of colliding requests is
                  served inside one process; state = set of requests already served.
(configurations)  PX: fresh interpreters with PYTHONHASHSEED = 0,1,2,... until every permutation of
                  every probe set has been observed (or the cap), digests of the text of every request.
(entry points)    CLI stdout / -o file vs library text, unmentioned tensors dense.
"""

from __future__ import annotations

import hashlib
import itertools
import json
import os
import subprocess
import sys
import time
from collections import Counter
from concurrent.futures import ThreadPoolExecutor

from .. import space
from ..common import BUILD_DIR, NPROC, VERIF, Run, cap_findings, rotate, run_pool

# (assignment, formats as given by the caller (dict order matters), backend)
MENU = [
    ("a(i) = b(i) + c(i)", {"a": "s", "b": "s", "c": "s"}, "llvm"),
    ("a(i) = b(i) + c(i)", {"c": "s", "b": "s", "a": "s"}, "llvm"),       # same problem, other dict order
    ("a(i) = b(i) + c(i)", {"a": "d", "b": "s", "c": "s"}, "llvm"),       # differs in one mode
    ("x(j) = y(j) + z(j)", {"x": "s", "y": "s", "z": "s"}, "llvm"),       # alpha-renamed twin
    ("a(i) = b(i) * 2", {"a": "s", "b": "s"}, "llvm"),                    # Integer(2) ...
    ("a(i) = b(i) * 2.0", {"a": "s", "b": "s"}, "llvm"),                  # ... vs Float(2.0): equal hash
    ("a(i,j) = b(i,j) + c(i,j)", {"a": "ds", "b": "ds", "c": "dd"}, "llvm"),
    ("a(i,j) = b(i,j) + c(i,j)", {"a": "ds", "b": "dd", "c": "ds"}, "llvm"),  # formats swapped between operands
    ("a(i) = b(i) + c(i) + d(i)", {"a": "s", "b": "s", "c": "s", "d": "s"}, "llvm"),       # same text up to ...
    ("a(i) = b(i) + (c(i) + d(i))", {"a": "s", "b": "s", "c": "s", "d": "s"}, "llvm"),     # ... the grouping
    ("y(i) = A(i,j) * x(j) + b(i)", {"y": "d", "A": "ds", "x": "d", "b": "d"}, "llvm"),    # a sum over a contraction
]


def _f(kind, what, case, **sig):
    return {"props": ["C15"], "signature": {"kind": kind, **sig}, "what": what, "case": case}


def structural_key(text, formats, backend):
    """Independent statement of 'the same problem': assignment tree + formats by appearance."""
    from tensora.expression import parse_assignment
    from tensora.format import parse_format

    a = parse_assignment(text).unwrap()
    orders = a.variable_orders()
    fm = []
    for name in orders:
        f = parse_format(formats[name]).unwrap() if name in formats else None
        fm.append((name, None if f is None else (tuple(m.name for m in f.modes), tuple(f.ordering))))
    # the tree itself (dataclass repr), not its deparsed text: the text is part of what is being checked
    return (repr(a.target), repr(a.expression), tuple(fm), backend)


def inputs_for(text, formats):
    from tensora import Tensor
    from tensora.expression import parse_assignment

    a = parse_assignment(text).unwrap()
    out = {}
    k = 0
    for name, refs in a.expression.variables().items():
        order = refs[0].order
        dims = (3,) * order
        cells = list(itertools.product(*[range(d) for d in dims]))
        dok = {c: 1.0 + 0.5 * n + 8 * k for n, c in enumerate(cells) if (sum(c) + k) % 2 == 0}
        if order == 1 and len(a.expression.variables()) == 3:
            # grouping-sensitive values: (1e20 + -1e20) + 1.0 != 1e20 + (-1e20 + 1.0)
            dok[(1,)] = (1e20, -1e20, 1.0)[k]
        out[name] = Tensor.from_dok(dok, dimensions=dims, format=formats[name])
        k += 1
    return out


def serve(req, served, reference, findings, stats, case):
    """Serve one request through every entry point; compare with `reference` (filled on first use)."""
    from returns.result import Success
    from typer.testing import CliRunner

    from tensora import tensor_method
    from tensora.cli import app
    from tensora.compile import BackendCompiler
    from tensora.expression import parse_assignment
    from tensora.format import parse_format
    from tensora.generate import Language, generate_code
    from tensora.kernel_type import KernelType
    from tensora.problem import make_problem

    from ..rt import raw_image

    text, formats, backend = MENU[req]
    problem = make_problem(parse_assignment(text).unwrap(), {n: parse_format(f).unwrap() for n, f in formats.items()}).unwrap()
    obs = {}
    for lang in (Language.c, Language.llvm):
        r = generate_code(problem, [KernelType.evaluate], lang)
        obs[f"text-{lang}"] = r.unwrap() if isinstance(r, Success) else f"refused {type(r.failure()).__name__}"
    res = CliRunner().invoke(app, [text, *itertools.chain(*[["-f", f"{n}:{f}"] for n, f in formats.items()]),
                                   "-t", "evaluate", "-l", "c"], catch_exceptions=False)
    obs["cli"] = (res.exit_code, res.stdout)
    if obs["cli"] != (0, obs["text-c"] + "\n"):
        findings.append(_f("cli-differs", f"request {req}: CLI output differs from the library text", case))
    tm = tensor_method(text, formats, BackendCompiler[backend])
    out = tm(**inputs_for(text, formats))
    obs["result"] = raw_image(out)
    stats["requests served"] += 1
    ref = reference.setdefault(req, obs)
    # the order in which the caller happens to mention the formats is not part of the request: requests
    # that are the same mapping must produce the same text
    key = structural_key(text, formats, backend)
    for other, oref in reference.items():
        if other != req and structural_key(*MENU[other]) == key:
            for k in ("text-c", "text-llvm"):
                if obs[k] != oref[k]:
                    findings.append(_f("mention-order-dependent", f"requests {req} and {other} are the same assignment "
                                       f"and formats mentioned in a different order, but their {k} differs", case,
                                       observable=k.split("-")[0]))
    for k in obs:
        if obs[k] != ref[k]:
            findings.append(_f("history-dependent", f"request {req} ({text}, {formats}): {k} differs from what the "
                               f"same request produced in a fresh cache", case, observable=k.split("-")[0]))
    # sharing rule: the same TensorMethod object only for the same problem
    for other, (otm, okey) in served.items():
        same = structural_key(text, formats, backend) == okey
        if (tm is otm) and not same:
            findings.append(_f("cache-shares-distinct-problems", f"requests {req} and {other} are served by the same "
                               "compiled kernel but are different problems", case))
        if same and tm is otm:
            stats["cache hits on equal problems"] += 1
    served[req] = (tm, structural_key(text, formats, backend))
    return obs


def work_histories(unit):
    """All states (sets of served requests) in this unit: rebuild each by replaying its history on a
    cleared cache, then apply every transition (serve request r) and compare."""
    from tensora.compile._porcelain import cachable_tensor_method

    t0 = time.time()
    stats = Counter()
    findings = []
    reference = {}
    states = 0
    transitions = 0
    cachable_tensor_method.cache_clear()
    for r in range(len(MENU)):
        serve(r, {}, reference, findings, stats, {"history": [], "request": r})
        cachable_tensor_method.cache_clear()
    digests = {r: hashlib.sha1(json.dumps([reference[r]["text-c"], reference[r]["text-llvm"]]).encode()).hexdigest()
               for r in reference}
    for history in unit["histories"]:
        states += 1
        for r in range(len(MENU)):
            cachable_tensor_method.cache_clear()
            served = {}
            for h in history:
                serve(h, served, reference, findings, stats, {"history": history, "request": h})
            serve(r, served, reference, findings, stats, {"history": history, "request": r})
            transitions += 1
    cachable_tensor_method.cache_clear()
    return {"stats": dict(stats), "findings": cap_findings(findings), "states": states, "transitions": transitions,
            "digests": digests, "wall": time.time() - t0}


def seed_child(seed, spec):
    env = dict(os.environ)
    env["PYTHONHASHSEED"] = str(seed)
    env["PYTHONPATH"] = os.environ.get("PYTHONPATH") or VERIF
    env["TENSORA_VERIF"] = "1"
    p = subprocess.run([sys.executable, "-m", "vx.px_child"], input=json.dumps({**spec, "seed": seed}),
                       capture_output=True, text=True, env=env, cwd=VERIF)
    if p.returncode != 0:
        return seed, None, p.stderr[-800:]
    return seed, json.loads(p.stdout), ""


def run(tier, seed):
    run = Run("C15", tier, seed)
    # ---- histories: BFS over subsets of the menu; a state is represented by a sorted history
    n = len(MENU)
    states = []
    seen = {frozenset()}
    frontier = [[]]
    states.append([])
    while frontier:
        nxt = []
        for h in frontier:
            for r in range(n):
                if r in h:
                    continue
                key = frozenset(h) | {r}
                if key not in seen:
                    seen.add(key)
                    # histories are kept in arrival order (not sorted): the first path that reaches the state
                    nh = h + [r]
                    states.append(nh)
                    nxt.append(nh)
        frontier = nxt
    if tier == "quick":
        # quick: every state of size <= 2 and the full state, plus all orderings of colliding groups of requests
        pick = [h for h in states if len(h) <= 2 or len(h) == n]
    else:
        pick = states
    extra = [list(p) for p in itertools.permutations([0, 1, 2])] + [list(p) for p in itertools.permutations([4, 5, 3])]
    extra += [[8], [9], [8, 9], [9, 8], [6, 7], [7, 6], [0, 8, 9], [9, 0, 8], [10], [10, 10], [10, 0, 10]]
    pick = pick + [h for h in extra if h not in pick]
    units = [{"histories": pick[k::NPROC]} for k in range(NPROC)]
    units = [u for u in units if u["histories"]]
    print(f"[C15] histories: {len(pick)} states x {n} transitions in {len(units)} workers", flush=True)
    tot_states = tot_trans = 0
    all_digests = []
    for status, res in run_pool("vx.checks.c15", "work_histories", rotate(units, seed)):
        if status == "skipped":
            continue
        if status != "ok":
            run.report({"signature": {"kind": status}, "what": f"worker failed: {res}", "case": {}})
            continue
        tot_states += res["states"]
        tot_trans += res["transitions"]
        for k, v in res["stats"].items():
            run.counters[k] += v
        all_digests.append(res["digests"])
        run.report_all(res["findings"])
    for d in all_digests[1:]:
        if d != all_digests[0]:
            run.report(_f("process-dependent", "two worker processes generated different text for the same request",
                          {"digests": [all_digests[0], d]}))
    run.sample({"history": [MENU[r][0] + " " + json.dumps(MENU[r][1]) for r in (1, 0, 2)], "transition": "serve request 3",
                "observed": "text (c, llvm), CLI stdout, TensorMethod identity, raw result arrays"})
    # ---- seeds
    progs = space.enumerate_programs(2, 3) if tier == "quick" else space.enumerate_programs(2, 4)
    reqs = []
    for p in progs:
        names, combos = space.format_combos(p)
        combos = list(combos)
        stride = 1 if tier == "quick" else 3
        for combo in combos[::stride]:
            reqs.append((space.prog_json(p), space.fmts_json(names, dict(zip(names, combo, strict=True)))))
    probes = {"idx2": ["i", "j"], "idx3": ["i", "j", "k"], "ten3": ["a", "b", "c"], "ten4": ["a", "b", "c", "d"],
              "pairs": [["b", 0], ["c", 0], ["b", 1]]}
    probes["pairs"] = [tuple(x) for x in probes["pairs"]]
    spec = {"requests": reqs, "probes": {k: v for k, v in probes.items() if k != "pairs"}}
    max_seeds = 24 if tier == "quick" else 96
    need = {"idx2": 2, "idx3": 6, "ten3": 6}
    seen_perm = {k: set() for k in spec["probes"]}
    base = None
    seeds_run = 0
    t0 = time.time()
    batch = NPROC
    s0 = 0
    done = False
    while s0 < max_seeds and not done:
        with ThreadPoolExecutor(batch) as ex:
            outs = list(ex.map(lambda s: seed_child(s, spec), range(s0, min(max_seeds, s0 + batch))))
        for sd, doc, err in outs:
            seeds_run += 1
            if doc is None:
                run.report(_f("seed-child-failed", f"PYTHONHASHSEED={sd}: child failed: {err}", {"seed": sd}))
                continue
            for k in seen_perm:
                seen_perm[k].add(tuple(doc["probes"][k]))
            if base is None:
                base = (sd, doc["digests"])
            else:
                diff = [k for k in base[1] if doc["digests"].get(k) != base[1][k]]
                if diff:
                    a, b = base[1][diff[0]], doc["digests"][diff[0]]
                    kind = "seed-dependent-text" if not (str(a[0]).startswith(("refused", "raised")) or
                                                         str(b[0]).startswith(("refused", "raised"))) else "seed-dependent-outcome"
                    run.report(_f(kind, f"PYTHONHASHSEED={sd} vs {base[0]}: {len(diff)} request(s) differ, first "
                                  f"{diff[0]}: {b} vs {a}", {"seeds": [base[0], sd], "request": json.loads(diff[0])}))
        s0 += batch
        if tier == "quick" and all(len(seen_perm[k]) >= need[k] for k in need):
            done = True
    run.counters["hash seeds run"] = seeds_run
    run.coverage["probe_set_orders_observed"] = {k: len(v) for k, v in seen_perm.items()}
    run.coverage["requests_per_seed"] = len(reqs)
    run.assumptions += [
        "the hash seed can reach tensora only through the iteration order of sets/dicts keyed by short strings; "
        "seeds are enumerated until every permutation of the probe sets {i,j}, {i,j,k}, {a,b,c} was observed",
        "for failing requests only the outcome class (refused/raised + type) is compared across seeds",
    ]
    print(f"[C15] seeds: {seeds_run} interpreters x {len(reqs)} requests in {time.time() - t0:.0f}s; "
          f"orders observed {run.coverage['probe_set_orders_observed']}", flush=True)
    total = tot_trans + seeds_run * len(reqs)
    return run.finish(
        states=tot_states + seeds_run, transitions=total, traces_validated=run.counters["requests served"],
        evaluations=total, distinct_nontrivial=tot_states,
        rule="(histories) every set of already-served requests from a menu of 11 requests chosen to collide (same assignment "
             "with formats in another dict order, one mode changed, alpha-renamed twin, 2 vs 2.0, operand formats "
             "swapped, b+c+d vs b+(c+d) on grouping-sensitive values, a sum over a contraction) reached by replay on a cleared cache [quick: all states of size <= 2, the full state and all "
             "orderings of the colliding groups; thorough: all 2048], then every request served in that state through "
             "generate_code (c, llvm), the CLI, tensor_method and a call: text, CLI output and raw result arrays must "
             "equal those of a fresh cache; a TensorMethod object is shared only by structurally equal problems. "
             "(configurations) fresh interpreters per PYTHONHASHSEED: sha1 of the text of every request of the "
             "L<=2,S<=3 program x format space in both languages must be identical across seeds. "
             "non-trivial = cache states explored",
        exhaustive=True,
    )


def replay(path):
    with open(path) as f:
        rec = json.load(f)
    case = rec["case"]
    if "history" in case:
        r = work_histories({"histories": [case["history"]]})
        fs = [f for f in r["findings"] if f["signature"] == rec["signature"]]
        print([f["what"] for f in fs][:3])
        if fs:
            print(f"VIOLATION property=C15 replay={path}")
            return 1
        return 0
    if "seeds" in case:
        spec = {"requests": [case["request"]], "probes": {}}
        a = seed_child(case["seeds"][0], spec)[1]
        b = seed_child(case["seeds"][1], spec)[1]
        print(a["digests"], b["digests"])
        if a["digests"] != b["digests"]:
            print(f"VIOLATION property=C15 replay={path}")
            return 1
    return 0
