"""C11 - Tensor operators agree with element-wise and matrix arithmetic."""

from __future__ import annotations

import itertools
from fractions import Fraction
import json
import operator
import time
from collections import Counter

from ..common import cap_findings, too_many, Run, rotate, run_pool
from ..tensors import all_formats, fmt_str, parse_fmt

OPS = {"+": operator.add, "-": operator.sub, "*": operator.mul}
SCALARS = [0, 1, -2, 2.5, True]


def _f(kind, what, case, **sig):
    return {"props": ["C11"], "signature": {"kind": kind, **sig}, "what": what, "case": case}


def subsets(cells, maxn):
    for r in range(min(len(cells), maxn) + 1):
        yield from itertools.combinations(cells, r)


def mk(dims, fmt, sub, base, step=0.5):
    from tensora import Tensor

    model = {c: base + step * (k + 1) for k, c in enumerate(sub)}
    return Tensor.from_dok(dict(model), dimensions=dims, format=fmt), model


def natural(fmt):
    return tuple(fmt.ordering) == tuple(range(len(fmt.modes)))


def expected_format(op, fa, fb):
    if op == "*":
        return "".join("d" if a.name == "dense" and b.name == "dense" else "s" for a, b in zip(fa.modes, fb.modes, strict=True))
    return "".join("d" if a.name == "dense" or b.name == "dense" else "s" for a, b in zip(fa.modes, fb.modes, strict=True))


def judge(res, exc, expect, exp_dims, case, findings, stats, want_fmt=None, shape_ok=True):
    """expect: dict coord -> value (dense semantics: absent = 0)."""
    from tensora.desugar import NoKernelFoundError

    from ..rt import raw_decode

    if exc is not None:
        if isinstance(exc, NoKernelFoundError):
            stats["no kernel (documented refusal)"] += 1
            return
        if isinstance(exc, ValueError):
            if shape_ok:
                findings.append(_f("spurious-shape-error", f"ValueError for matching shapes: {exc}", case))
            else:
                stats["shape errors"] += 1
            return
        findings.append(_f("operator-raises", f"raised {type(exc).__name__}: {exc}", case,
                           exception=type(exc).__name__, site=_site(exc)))
        return
    if not shape_ok:
        findings.append(_f("shape-mismatch-accepted", "mismatching shapes produced a result", case))
        return
    dims, fmt, stored, problems = raw_decode(res)
    bad = [c for c, v in expect.items() if stored.get(c, 0.0) != v] + \
          [c for c, v in stored.items() if c not in expect and v != 0.0]
    inside = all(all(0 <= x < d for x, d in zip(c, exp_dims, strict=True)) for c in stored)
    if tuple(dims) != tuple(exp_dims) or problems or bad or not inside:
        findings.append(_f("operator-wrong", f"dimensions {dims} (expected {tuple(exp_dims)}), problems {problems}, "
                           f"wrong at {bad[:3]}: got {[stored.get(c) for c in bad[:3]]}, expected "
                           f"{[expect.get(c, 0.0) for c in bad[:3]]}", case))
        return
    stats["results correct"] += 1
    if want_fmt is not None:
        got = "".join(ch for ch in fmt if ch in "ds")
        if got != want_fmt or tuple(int(ch) for ch in fmt if ch.isdigit()) != tuple(range(len(want_fmt))):
            findings.append(_f("result-format", f"result format {fmt}, documented rule says {want_fmt}", case))
        else:
            stats["result formats per rule"] += 1


INEXACT_VALUE_SETS = [(0.1, 0.3, 0.7, 0.2), (0.1, 0.7, 0.3, 1.1), (1 / 3, 1 / 7, 1 / 11, 1 / 13), (0.1, 0.37, 0.7, 0.23),
                      (0.3, 0.11, 0.9, 0.17), (1 / 3, 0.3, 1 / 7, 0.7)]


def fused_differs(pairs):
    """Would accumulating these products with a fused multiply-add (single rounding) give a value that no order of
    separately rounded multiply and add gives?"""
    if len(pairs) < 2:
        return False
    acc = Fraction(0)
    for x, y in pairs:
        acc = Fraction(float(Fraction(x) * Fraction(y) + acc))
    allowed = set()
    for perm in itertools.permutations([x * y for x, y in pairs]):
        t = 0.0
        for p in perm:
            t = t + p
        allowed.add(t)
    return float(acc) not in allowed


def judge_rounding(res, terms, case, findings, stats):
    """Inexact operands: every result cell must be the sum, in some order, of the correctly rounded products
    (double multiply, then double add - what the element-wise definition means for doubles)."""
    from ..rt import raw_decode

    _dims, _fmt, stored, _problems = raw_decode(res)
    for c, prods in terms.items():
        allowed = set()
        for perm in itertools.permutations(prods):
            acc = 0.0
            for p in perm:
                acc = acc + p
            allowed.add(acc)
        got = stored.get(c, 0.0)
        if got not in allowed:
            findings.append(_f("operator-rounding", f"cell {c}: got {got!r}, but the rounded products {prods} sum to "
                               f"{sorted(allowed)!r} in every order", case))
            return
    stats["results correctly rounded (inexact operands)"] += 1


def _site(exc):
    tb = exc.__traceback__
    last = None
    while tb is not None:
        last = tb
        tb = tb.tb_next
    return last.tb_frame.f_code.co_qualname if last else "?"


def work(unit):
    t0 = time.time()
    stats = Counter()
    findings = []
    samples = []
    n = 0
    kind = unit["kind"]
    maxn = unit["max_cells"]
    if kind == "binary":
        fa, fb = parse_fmt(unit["fa"]), parse_fmt(unit["fb"])
        order = len(fa.modes)
        for dims in (unit.get("dims_list") or itertools.product(unit["dim_values"], repeat=order)):
            dims = tuple(dims)
            cells = list(itertools.product(*[range(d) for d in dims]))
            subs = list(subsets(cells, maxn))
            for sa in subs:
                for sb in subs:
                    A, ma = mk(dims, fa, sa, 1.0)
                    B, mb = mk(dims, fb, sb, 16.0)
                    for op, fn in OPS.items():
                        n += 1
                        case = {"op": op, "left": {"format": unit["fa"], "dims": list(dims), "entries": [list(c) for c in sa]},
                                "right": {"format": unit["fb"], "dims": list(dims), "entries": [list(c) for c in sb]}}
                        expect = {c: fn(ma.get(c, 0.0), mb.get(c, 0.0)) for c in set(ma) | set(mb)}
                        try:
                            r, e = fn(A, B), None
                        except Exception as ex:  # noqa: BLE001
                            r, e = None, ex
                        judge(r, e, expect, dims, case, findings, stats,
                              want_fmt=expected_format(op, fa, fb) if natural(fa) and natural(fb) else None)
                        if len(samples) < 1 and e is None and len(sa) >= 1 and len(sb) >= 1:
                            samples.append(case)
                if too_many(findings):
                    break
            if too_many(findings):
                break
        # mismatching dimensions (one component differs)
        if order >= 1:
            for pos in range(order):
                d1 = tuple(2 for _ in range(order))
                d2 = tuple(3 if k == pos else 2 for k in range(order))
                for op, fn in OPS.items():
                    for da, db in ((d1, d2), (d2, d1)):
                        n += 1
                        A, _ = mk(da, fa, [tuple(0 for _ in da)], 1.0)
                        B, _ = mk(db, fb, [tuple(0 for _ in db)], 2.0)
                        try:
                            r, e = fn(A, B), None
                        except Exception as ex:  # noqa: BLE001
                            r, e = None, ex
                        judge(r, e, {}, da, {"op": op, "left": {"format": unit["fa"], "dims": list(da)},
                                             "right": {"format": unit["fb"], "dims": list(db)}}, findings, stats,
                              shape_ok=False)
    elif kind == "scalar":
        fa = parse_fmt(unit["fa"])
        order = len(fa.modes)
        for dims in (unit.get("dims_list") or itertools.product(unit["dim_values"], repeat=order)):
            dims = tuple(dims)
            cells = list(itertools.product(*[range(d) for d in dims]))
            allc = cells
            for sa in subsets(cells, maxn):
                A, ma = mk(dims, fa, sa, 1.0)
                for s in SCALARS:
                    for op, fn in OPS.items():
                        for side in ("right", "left"):
                            n += 1
                            case = {"op": op, "scalar": repr(s), "scalar_side": side,
                                    "tensor": {"format": unit["fa"], "dims": list(dims), "entries": [list(c) for c in sa]}}
                            if side == "right":
                                expect = {c: fn(ma.get(c, 0.0), float(s)) for c in allc}
                            else:
                                expect = {c: fn(float(s), ma.get(c, 0.0)) for c in allc}
                            try:
                                r, e = (fn(A, s) if side == "right" else fn(s, A)), None
                            except Exception as ex:  # noqa: BLE001
                                r, e = None, ex
                            want = None
                            if natural(fa):
                                want = "".join(m.character for m in fa.modes) if op == "*" else "d" * order
                            judge(r, e, expect, dims, case, findings, stats, want_fmt=want)
            if too_many(findings):
                break
    elif kind == "matmul":
        fa, fb = parse_fmt(unit["fa"]), parse_fmt(unit["fb"])
        oa, ob = len(fa.modes), len(fb.modes)
        for inner_a, inner_b in unit["inner"]:
            for outer in unit["outer"]:
                da = (inner_a,) if oa == 1 else (outer, inner_a)
                db = (inner_b,) if ob == 1 else (inner_b, outer)
                ca = list(itertools.product(*[range(d) for d in da]))
                cb = list(itertools.product(*[range(d) for d in db]))
                for sa in subsets(ca, maxn):
                    for sb in subsets(cb, maxn):
                        n += 1
                        A, ma = mk(da, fa, sa, 1.0)
                        B, mb = mk(db, fb, sb, 16.0)
                        case = {"op": "@", "left": {"format": unit["fa"], "dims": list(da), "entries": [list(c) for c in sa]},
                                "right": {"format": unit["fb"], "dims": list(db), "entries": [list(c) for c in sb]}}
                        ok = inner_a == inner_b
                        expect = {}
                        exp_dims = ()
                        if ok:
                            if oa == 1 and ob == 1:
                                expect = {(): sum(ma.get((k,), 0.0) * mb.get((k,), 0.0) for k in range(inner_a))}
                            elif oa == 2 and ob == 1:
                                exp_dims = (outer,)
                                expect = {(i,): sum(ma.get((i, k), 0.0) * mb.get((k,), 0.0) for k in range(inner_a))
                                          for i in range(outer)}
                            elif oa == 1 and ob == 2:
                                exp_dims = (outer,)
                                expect = {(j,): sum(ma.get((k,), 0.0) * mb.get((k, j), 0.0) for k in range(inner_a))
                                          for j in range(outer)}
                            else:
                                exp_dims = (outer, outer)
                                expect = {(i, j): sum(ma.get((i, k), 0.0) * mb.get((k, j), 0.0) for k in range(inner_a))
                                          for i in range(outer) for j in range(outer)}
                        try:
                            r, e = A @ B, None
                        except Exception as ex:  # noqa: BLE001
                            r, e = None, ex
                        want = None
                        if ok and natural(fa) and natural(fb):
                            want = ("" if oa == 1 else fa.modes[0].character) + ("" if ob == 1 else fb.modes[1].character)
                        judge(r, e, expect, exp_dims, case, findings, stats, want_fmt=want, shape_ok=ok)
                        if ok and e is None:
                            # the same pattern with operands whose products are inexact in binary; of a few value
                            # sets, the first one for which fusing the multiply into the add would show
                            ia = (lambda c, k: (k,) if oa == 1 else (c[0], k))
                            ib = (lambda c, k: (k,) if ob == 1 else (k, c[-1]))
                            terms = {}
                            for ba, sta, bb, stb in INEXACT_VALUE_SETS:
                                A2, ma2 = mk(da, fa, sa, ba, sta)
                                B2, mb2 = mk(db, fb, sb, bb, stb)
                                pairs = {c: [(ma2[ia(c, k)], mb2[ib(c, k)]) for k in range(inner_a)
                                             if ia(c, k) in ma2 and ib(c, k) in mb2] for c in expect}
                                terms = {c: [x * y for x, y in pr] for c, pr in pairs.items()}
                                if any(fused_differs(pr) for pr in pairs.values()):
                                    stats["inexact cases where a fused multiply-add would be visible"] += 1
                                    break
                            if any(len(t) >= 2 for t in terms.values()):
                                n += 1
                                try:
                                    r2 = A2 @ B2
                                except Exception as ex:  # noqa: BLE001
                                    findings.append(_f("operator-raises", f"raised {type(ex).__name__}: {ex}", case,
                                                       exception=type(ex).__name__, site=_site(ex)))
                                else:
                                    judge_rounding(r2, terms, {**case, "values": "inexact"}, findings, stats)
                    if too_many(findings):
                        break
    elif kind == "unsupported":
        from tensora import Tensor

        for oa, ob in [(0, 0), (0, 1), (1, 0), (3, 1), (1, 3), (3, 3), (2, 3), (0, 2)]:
            n += 1
            A = Tensor.from_dok({}, dimensions=(2,) * oa, format="d" * oa)
            B = Tensor.from_dok({}, dimensions=(2,) * ob, format="d" * ob)
            try:
                A @ B
                findings.append(_f("matmul-unsupported-accepted", f"@ between orders {oa} and {ob} returned", {"orders": [oa, ob]}))
            except ValueError:
                stats["unsupported @ refused"] += 1
            except Exception as ex:  # noqa: BLE001
                findings.append(_f("operator-raises", f"@ orders {oa},{ob}: {type(ex).__name__}: {ex}", {"orders": [oa, ob]},
                                   exception=type(ex).__name__, site=_site(ex)))
        for other in (None, "x", [1.0]):
            for op, fn in OPS.items():
                n += 1
                A = Tensor.from_dok({(0,): 1.0}, dimensions=(2,), format="d")
                try:
                    fn(A, other)
                    findings.append(_f("operator-accepts-nonsense", f"{op} with {other!r} returned", {"other": repr(other)}))
                except TypeError:
                    stats["non-numeric operand refused"] += 1
                except Exception as ex:  # noqa: BLE001
                    findings.append(_f("operator-raises", f"{op} with {other!r}: {type(ex).__name__}", {"other": repr(other)},
                                       exception=type(ex).__name__, site=_site(ex)))
    return {"stats": dict(stats), "findings": cap_findings(findings), "samples": samples, "n": n, "wall": time.time() - t0}


def run(tier, seed):
    run = Run("C11", tier, seed)
    units = []
    max_order = 2 if tier == "quick" else 3
    for o in range(0, max_order + 1):
        fs = all_formats(o)
        dv = (0, 1, 2) if o <= 2 else (1, 2)
        mc = 4 if o <= 2 else 2
        if tier == "quick" and o == 2:
            dv = (0, 1, 2)
            mc = 4
        for fa in fs:
            for fb in fs:
                units.append({"kind": "binary", "fa": fmt_str(fa), "fb": fmt_str(fb), "dim_values": dv, "max_cells": mc})
            units.append({"kind": "scalar", "fa": fmt_str(fa), "dim_values": dv, "max_cells": 4 if o <= 2 else 2})
    if tier == "quick":
        # order 3 in the quick tier: every format pair, one non-cubic dimension vector, <= 1 stored cell each
        fs = all_formats(3)
        for fa in fs:
            for fb in fs:
                units.append({"kind": "binary", "fa": fmt_str(fa), "fb": fmt_str(fb), "dim_values": (2,),
                              "dims_list": [(2, 1, 2)], "max_cells": 1})
            units.append({"kind": "scalar", "fa": fmt_str(fa), "dim_values": (2,), "dims_list": [(2, 1, 2), (1, 2, 2)],
                          "max_cells": 2})
    for oa, ob in [(1, 1), (2, 1), (1, 2), (2, 2)]:
        for fa in all_formats(oa):
            for fb in all_formats(ob):
                units.append({"kind": "matmul", "fa": fmt_str(fa), "fb": fmt_str(fb),
                              "inner": [(2, 2), (1, 1), (0, 0), (2, 3), (3, 2)], "outer": [2, 1] if tier == "quick" else [2, 1, 0],
                              "max_cells": 2 if (oa, ob) == (2, 2) else 3})
    units.append({"kind": "unsupported", "max_cells": 0})
    units = rotate(units, seed)
    print(f"[C11] {len(units)} operator/format units", flush=True)
    total = 0
    for status, res in run_pool("vx.checks.c11", "work", units):
        if status == "skipped":
            continue
        if status != "ok":
            run.report({"signature": {"kind": status}, "what": f"worker failed: {res}", "case": {}})
            continue
        total += res["n"]
        for k, v in res["stats"].items():
            run.counters[k] += v
        for s in res["samples"]:
            run.sample(s, limit=3)
        run.report_all(res["findings"])
    return run.finish(
        states=total, transitions=total, traces_validated=run.counters["results correct"], evaluations=total,
        distinct_nontrivial=run.counters["results correct"],
        rule=f"every ordered pair of formats of order 0..{max_order} (all modes x all orderings; quick adds every order-3 "
             "pair on the dimension vector (2,1,2) with <= 1 stored cell per operand) x + - * x every "
             "dimension vector over {0,1,2} x every pair of stored sets within the cell bound; one-component dimension "
             "mismatches in both directions; a Python number from {0,1,-2,2.5,True} on either side; @ for every format "
             "pair of orders (1,1),(2,1),(1,2),(2,2) with matching (2,1,0) and mismatching inner dimensions; "
             "unsupported orders and non-numeric operands. Results are decoded from the raw arrays and compared with "
             "dict arithmetic on exact dyadic values (for @ also with inexact operands: every cell must be a sum, in some order, of the correctly rounded products); ValueError exactly when shapes mismatch; NoKernelFoundError "
             "accepted; for natural mode orders the result format must follow the documented rule",
        exhaustive=True,
    )


def replay(path):
    with open(path) as f:
        rec = json.load(f)
    print("replay: re-run ./check C11; recorded case:", json.dumps(rec["case"])[:800])
    c = rec["case"]
    if "left" in c and "right" in c and c.get("op") in OPS:
        u = {"kind": "binary", "fa": c["left"]["format"], "fb": c["right"]["format"], "dim_values": (0, 1, 2), "max_cells": 4}
        r = work(u)
        fs = [f for f in r["findings"] if f["signature"] == rec["signature"]]
        if fs:
            print(f"VIOLATION property=C11 replay={path}")
            return 1
    return 0
