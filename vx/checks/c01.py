"""C01 - evaluate computes the mathematical meaning of the assignment, in every format."""

from __future__ import annotations

from ._kxcheck import replay_kx, run_kx


def runtime_phase(run, tier, seed, tot):
    from ..rtsweep import phase

    return phase(run, tier, seed, tot, "C01", usability=False)

ORACLES = ["value"]


def run(tier, seed):
    return run_kx(
        "C01", tier, seed,
        oracles=ORACLES,
        capacities=["default"] if tier == "quick" else ["default", 1],
        flavour="full" if tier == "quick" else "wide",
        rule="every program of the tier's program space x every format assignment (all modes x all mode orderings "
             "per tensor) for which the real generator returns a kernel x default and deviating dimension vectors "
             "(0,1,2,3) x every joint stored structure of the operands within the cap; evaluate kernel executed on "
             "the IR abstract machine with every stored value a distinct indeterminate; output decoded from the raw "
             "pos/crd/vals blocks and compared as polynomials with the tensor-algebra reference at every coordinate",
        extra_phase=runtime_phase,
        assumptions=[
            "values range over the reals: one run per structure with indeterminate values decides the value equation "
            "for all finite values up to floating-point rounding (kernels cannot branch on a stored value - the "
            "machine faults on a float in a condition)",
            "the abstract machine implements the IR semantics of both printers; C06 replays AM runs against gcc, "
            "clang and the llvmlite JIT",
            "bounds: leaves/total order per the program space, dimensions in {0,1,2,3}, orders 0..3",
        ],
    )


def replay(path):
    return replay_kx("C01", path, ORACLES)
