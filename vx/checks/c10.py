"""C10 - inconsistent arguments are refused before any kernel runs."""

from __future__ import annotations

import itertools
import json
import time
from collections import Counter
from fractions import Fraction

from .. import space
from ..common import cap_findings, Run, rotate, run_pool
from ..refmodel import reference
from ..tensors import all_formats, fmt_str, full_structure, parse_fmt


def _f(kind, what, case, **sig):
    return {"props": ["C10"], "signature": {"kind": kind, **sig}, "what": what, "case": case}


def accepted_errors():
    from tensora import problem
    from tensora.compile import BroadcastTargetIndexError
    from tensora.expression._exceptions import (
        InconsistentDimensionsError,
        MutatingAssignmentError,
        NameConflictError,
    )

    return (TypeError, ValueError, problem.IncorrectDimensionsError, problem.UndefinedReferenceError,
            problem.UnusedFormatError, BroadcastTargetIndexError, InconsistentDimensionsError,
            MutatingAssignmentError, NameConflictError)


class EntryCounter:
    """Counts entries into the compiled kernel by wrapping the function pointer the TensorMethod
    holds.  If the attribute is not there (refactored), the rule 'an inconsistent call must not
    return' still decides the property."""

    def __init__(self, tm):
        self.count = 0
        self.installed = False
        inner = getattr(tm, "_evaluate", None)
        if inner is not None and callable(inner):
            def wrapper(*a):
                self.count += 1
                return inner(*a)

            try:
                tm._evaluate = wrapper
                self.installed = True
            except Exception:  # noqa: BLE001
                pass


class HasFormat:
    """A non-Tensor that happens to have a `format` attribute (like a scipy.sparse matrix)."""

    format = "csr"
    order = 1
    dimensions = (2,)


def dense_tensor(dims, fmt, base):
    from ..rt import tensor_from_structure

    st = full_structure(fmt, tuple(dims))
    coords = st.coords()
    vals = [base + 0.25 * (k + 1) for k in range(len(coords))]
    return tensor_from_structure(st, vals), dict(zip(coords, [Fraction(v) for v in vals], strict=True))


def menu(tier):
    """Non-broadcast programs (TensorMethod refuses broadcast targets), + and * only."""
    progs = space.enumerate_programs(2, 5, ops="+*")
    progs += space.enumerate_programs(3, 3, ops="+*", min_leaves=3)
    if tier != "quick":
        progs += space.enumerate_programs(3, 4, ops="+*", min_leaves=3, repeats=False, min_total_order=4)
    out = []
    for p in progs:
        rhs = {i for l in space.tree_leaves(p[2]) if l[0] == "t" for i in l[2]}
        if all(i in rhs for i in p[1]):
            out.append(p)
    return out


def work(unit):
    from tensora import Tensor, evaluate, tensor_method
    from tensora.desugar import NoKernelFoundError

    from ..rt import raw_decode

    t0 = time.time()
    prog = space.prog_from_json(unit["prog"])
    fmts = {n: parse_fmt(s) for n, s in unit["formats"].items()}
    names = list(fmts)
    out_name = names[0]
    ops = names[1:]
    text = space.prog_str(prog)
    stats = Counter()
    findings = []
    samples = []
    OK = accepted_errors()
    case0 = {"assignment": text, "formats": unit["formats"]}
    try:
        tm = tensor_method(text, {n: fmts[n].deparse() for n in names})
    except NoKernelFoundError:
        return {"stats": {"no kernel": 1}, "findings": [], "samples": [], "calls": 0, "wall": 0}
    counter = EntryCounter(tm)
    refs = space.all_refs(prog)
    orders = {n: len(refs[n][0]) for n in ops}
    orders_all = {**orders, out_name: len(prog[1])}
    slots = [(n, d) for n in ops for d in range(orders[n])]
    calls = 0

    def consistent(sizes):
        idx = {}
        for n, reflist in refs.items():
            for ref in reflist:
                for d, i in enumerate(ref):
                    if idx.setdefault(i, sizes[(n, d)]) != sizes[(n, d)]:
                        return None
        return idx

    def call(kwargs, pos=(), expect_ok=False, what="", DIM=None, envs=None):
        nonlocal calls
        calls += 1
        before = counter.count
        c = {**case0, "call": what}
        try:
            r = tm(*pos, **kwargs)
        except OK as e:
            if expect_ok:
                findings.append(_f("consistent-call-refused", f"{what}: consistent call raised {type(e).__name__}: {e}", c))
            elif counter.count != before:
                findings.append(_f("kernel-entered", f"{what}: raised {type(e).__name__} but only after the kernel ran", c))
            else:
                stats["refused before the kernel"] += 1
            return
        except BaseException as e:  # noqa: BLE001
            findings.append(_f("wrong-exception", f"{what}: raised {type(e).__name__}: {e}", c,
                               exception=type(e).__name__))
            return
        if not expect_ok:
            findings.append(_f("inconsistent-call-returned", f"{what}: the call returned a result", c,
                               deviation=what.split(":")[0]))
            return
        stats["consistent calls"] += 1
        if counter.installed and counter.count != before + 1:
            findings.append(_f("entry-count", f"{what}: kernel entered {counter.count - before} times", c))
        dims, fmt, stored, problems = raw_decode(r)
        odims = tuple(DIM[i] for i in prog[1])
        exp = reference(prog, envs, DIM, zero=Fraction(0), lift=Fraction)
        bad = [k for k, v in exp.items() if Fraction(stored.get(k, 0.0)) != v] + [k for k in stored if k not in exp]
        if dims != odims or problems or bad:
            findings.append(_f("consistent-call-wrong", f"{what}: dimensions {dims} (expected {odims}), problems "
                               f"{problems}, wrong coordinates {bad[:3]}", c))
        elif len(samples) < 1:
            samples.append({**c, "output_dimensions": list(dims)})

    # ---- every dimension vector over {1,2,3}: consistent and inconsistent ones alike
    for vec in itertools.product(unit["sizes"], repeat=len(slots)):
        sizes = dict(zip(slots, vec, strict=True))
        kwargs = {}
        envs = {}
        for k, n in enumerate(ops):
            t, env = dense_tensor([sizes[(n, d)] for d in range(orders[n])], fmts[n], 8.0 * k)
            kwargs[n] = t
            envs[n] = env
        DIM = consistent(sizes)
        call(kwargs, expect_ok=DIM is not None, what=f"dimensions:{dict((f'{n}.{d}', s) for (n, d), s in sizes.items())}",
             DIM=DIM, envs=envs)
    # ---- single deviations from a consistent base call (all dimensions 2)
    base = {}
    for k, n in enumerate(ops):
        base[n], _ = dense_tensor([2] * orders[n], fmts[n], 8.0 * k)
    for n in ops:
        o = orders[n]
        for o2 in (o - 1, o + 1):
            if o2 >= 0:
                f2 = all_formats(o2)[0]
                t, _ = dense_tensor([2] * o2, f2, 1.0)
                call({**base, n: t}, what=f"order:{n} has order {o2}")
        for f2 in all_formats(o):
            if f2 != fmts[n]:
                t, _ = dense_tensor([2] * o, f2, 1.0)
                kind = "modes" if f2.ordering == fmts[n].ordering else "ordering" if f2.modes == fmts[n].modes else "format"
                call({**base, n: t}, what=f"{kind}:{n} has format {fmt_str(f2)}")
        rest = {k: v for k, v in base.items() if k != n}
        call(rest, what=f"missing:{n}")
        call({**rest, n + "x": base[n]}, what=f"misspelt:{n}x")
        for bad, label in ((None, "None"), (3.0, "float"), ([1.0, 2.0], "list"), (base[n].cffi_tensor, "cffi struct"),
                           ("x", "str")):
            call({**base, n: bad}, what=f"type:{n} is {label}")
    call({**base, "zz": next(iter(base.values()))}, what="extra:zz")
    call({**base, out_name: next(iter(base.values()))}, what=f"extra:{out_name} (the output name)")
    call({}, pos=tuple(base.values()), what="positional:all arguments positional")
    # ---- the same through evaluate()
    ofmt = fmts[out_name].deparse()
    for what, kw in (
        [(f"missing:{n}", {k: v for k, v in base.items() if k != n}) for n in ops]
        + [("extra:zz", {**base, "zz": next(iter(base.values()))})]
        + [(f"type:{n} is {label}", {**base, n: bad}) for n in ops
           for bad, label in ((None, "None"), (3.0, "float"), ("ds", "str"), (Tensor, "the Tensor class"),
                              (HasFormat(), "foreign object with a format attribute"), ([1.0], "list"),
                              (base[n].cffi_tensor, "cffi struct"))]
        + [(f"order:{n} has order {o2}", {**base, n: dense_tensor([2] * o2, all_formats(o2)[0], 1.0)[0]})
           for n in ops for o2 in (orders[n] + 1, orders[n] - 1) if o2 >= 0]
    ):
        calls += 1
        try:
            evaluate(text, ofmt, **kw)
            findings.append(_f("inconsistent-call-returned", f"evaluate {what}: the call returned a result",
                               {**case0, "call": "evaluate " + what}, deviation=what.split(":")[0], entry="evaluate"))
        except OK:
            stats["refused before the kernel"] += 1
        except BaseException as e:  # noqa: BLE001
            findings.append(_f("wrong-exception", f"evaluate {what}: raised {type(e).__name__}: {e}",
                               {**case0, "call": "evaluate " + what}, exception=type(e).__name__, entry="evaluate",
                               deviation=what.split(":")[0]))
    # ---- a method declared with a format of the wrong order for one tensor must be refused when it is built
    for n in names:
        for o2 in (orders_all[n] + 1, orders_all[n] - 1):
            if o2 < 0:
                continue
            calls += 1
            what = f"declared-order:{n} declared with an order-{o2} format"
            try:
                tensor_method(text, {**{m: fmts[m].deparse() for m in names}, n: all_formats(o2)[0].deparse()})
                findings.append(_f("inconsistent-call-returned", f"tensor_method {what}: a method was returned",
                                   {**case0, "call": "tensor_method " + what}, deviation="declared-order", entry="tensor_method"))
            except OK:
                stats["refused before the kernel"] += 1
            except BaseException as e:  # noqa: BLE001
                findings.append(_f("wrong-exception", f"tensor_method {what}: raised {type(e).__name__}: {e}",
                                   {**case0, "call": "tensor_method " + what}, exception=type(e).__name__,
                                   entry="tensor_method", deviation="declared-order"))
    for wrong in ("d" * (len(prog[1]) + 1),):
        calls += 1
        try:
            evaluate(text, wrong, **base)
            findings.append(_f("inconsistent-call-returned", f"evaluate with output format {wrong!r} returned",
                               {**case0, "call": "evaluate output format"}, deviation="output-format", entry="evaluate"))
        except OK:
            stats["refused before the kernel"] += 1
        except BaseException as e:  # noqa: BLE001
            findings.append(_f("wrong-exception", f"evaluate output format {wrong!r}: {type(e).__name__}: {e}",
                               {**case0, "call": "evaluate output format"}, exception=type(e).__name__, entry="evaluate"))
    stats["entry counter installed"] += int(counter.installed)
    return {"stats": dict(stats), "findings": cap_findings(findings), "samples": samples, "calls": calls,
            "wall": time.time() - t0}


def run(tier, seed):
    run = Run("C10", tier, seed)
    units = []
    for p in menu(tier):
        orders = space.tensor_orders(p)
        names = list(orders)
        choices = [("dense", {n: all_formats(orders[n])[0] for n in names}),
                   ("sparse", {n: all_formats(orders[n])[-1] for n in names})]
        choices.append(("mixed", {n: all_formats(orders[n])[len(all_formats(orders[n])) // 2] for n in names}))
        if tier != "quick":
            choices.append(("mixed2", {n: all_formats(orders[n])[len(all_formats(orders[n])) // 3] for n in names}))
        nslots = sum(o for n, o in orders.items() if n != names[0])
        for _tag, fm in choices:
            units.append({"prog": space.prog_json(p), "formats": {n: fmt_str(fm[n]) for n in names},
                          "sizes": (1, 2, 3) if nslots <= 5 else (1, 2)})
    units = rotate(units, seed)
    print(f"[C10] {len(units)} (assignment, formats) menus", flush=True)
    calls = 0
    for status, res in run_pool("vx.checks.c10", "work", units):
        if status == "skipped":
            continue
        if status != "ok":
            run.report({"signature": {"kind": status}, "what": f"worker failed (a crash of the process is itself a "
                        f"violation of C10): {res}", "case": {}})
            continue
        calls += res["calls"]
        for k, v in res["stats"].items():
            run.counters[k] += v
        for s in res["samples"]:
            run.sample(s, limit=3)
        run.report_all(res["findings"])
    refused = run.counters["refused before the kernel"]
    return run.finish(
        states=calls, transitions=calls, traces_validated=run.counters["consistent calls"], evaluations=calls,
        distinct_nontrivial=refused,
        rule="every non-broadcast assignment of the L<=2,S<=5 and L=3,S<=3 (+,*) spaces incl. tensors used twice with "
             "different index lists, in all-dense, all-compressed-reversed and one mixed format assignment, compiled once with tensor_method; "
             "called with EVERY dimension vector in {1,2,3}^(all operand dimensions) - consistent ones must return "
             "the reference value (raw arrays), inconsistent ones must raise TypeError/ValueError/problem errors with "
             "the kernel entry counter unchanged - and with every single deviation: order +-1, every other mode "
             "vector, every other ordering, missing / extra / misspelt / positional / non-Tensor argument; the same "
             "deviations through evaluate(). non-trivial = calls refused before the kernel",
        exhaustive=True,
    )


def replay(path):
    with open(path) as f:
        rec = json.load(f)
    case = rec["case"]
    r = work({"prog": space.prog_json(_parse(case["assignment"])), "formats": case["formats"], "sizes": (1, 2, 3)})
    fs = [f for f in r["findings"] if f["signature"] == rec["signature"]]
    print([f["what"] for f in fs][:5])
    if fs:
        print(f"VIOLATION property=C10 replay={path}")
        return 1
    return 0


def _parse(text):
    for p in menu("thorough"):
        if space.prog_str(p) == text:
            return p
    raise SystemExit(f"assignment {text!r} is not in the menu")
