"""C02 - every returned tensor is a canonical, self-consistent stored tensor."""

from __future__ import annotations

from ._kxcheck import replay_kx, run_kx


def runtime_phase(run, tier, seed, tot):
    from ..rtsweep import phase

    return phase(run, tier, seed, tot, "C02", usability=True, sparse_only=True)

ORACLES = ["wellformed", "ac"]


def run(tier, seed):
    return run_kx(
        "C02", tier, seed,
        oracles=ORACLES,
        capacities=[1, "default"] if tier == "quick" else [1, 2, 3, "default"],
        flavour="light" if tier == "quick" else "full",
        opts_extra={"sparse_output_only": True, "recomputes": 0},
        rule="every kernel of the program space whose output has >= 1 compressed level x dimension vectors x every "
             "joint input structure x initial capacities; evaluate and assemble+compute executed on the abstract "
             "machine; the final heap of the output is validated clause by clause: pos[0]=0, pos non-decreasing, pos "
             "block holds parent-positions+1 initialised entries, crd strictly increasing per segment and inside the "
             "dimension, crd block holds pos[last] initialised entries, vals block holds one initialised value per "
             "stored position, no array NULL/dangling, no coordinate stored twice",
        extra_phase=runtime_phase,
        assumptions=[
            "exact-length reallocation is not demanded (only 'at least as long'), so a legitimate change that stops "
            "shrinking arrays is not an alarm",
            "the abstract machine implements the IR semantics of both printers (bound to the implementation by C06)",
        ],
    )


def replay(path):
    return replay_kx("C02", path, ORACLES)
