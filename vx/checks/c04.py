"""C04 - assemble followed by compute is equivalent to evaluate."""

from __future__ import annotations

from ._kxcheck import replay_kx, run_kx

ORACLES = ["ac"]


def run(tier, seed):
    return run_kx(
        "C04", tier, seed,
        oracles=ORACLES,
        capacities=[1, "default"] if tier == "quick" else [1, 2, 3, "default"],
        flavour="light" if tier == "quick" else "full",
        opts_extra={"recomputes": 2},
        rule="histories: evaluate(o1,in); assemble(o2,in); compute(o2,in); compute(o2,in'); compute(o2,in'') with "
             "in', in'' the same structures carrying fresh indeterminates - for every kernel x dimension vector x "
             "joint structure x capacity. After assemble the structure blocks are frozen and vals may not be "
             "resized; compute must not allocate/reallocate, write outside vals, or touch pos/crd; pos/crd of o2 "
             "equal those of o1; values after each compute equal the reference for the inputs of that compute",
        native_stride=12 if tier == "quick" else 4,
        assumptions=[
            "the abstract machine implements the IR semantics of both printers (bound to the implementation by C06, "
            "which also runs assemble/compute natively under AddressSanitizer)",
        ],
        nontrivial_rule="states whose evaluate run executed at least one loop iteration with a stored input entry "
                        "(each such state is a 5-call history)",
    )


def replay(path):
    return replay_kx("C04", path, ORACLES, {"recomputes": 2})
