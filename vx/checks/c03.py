"""C03 - sparse outputs store no phantom coordinates."""

from __future__ import annotations

from ._kxcheck import replay_kx, run_kx


def runtime_phase(run, tier, seed, tot):
    from ..rtsweep import phase

    return phase(run, tier, seed, tot, "C03", usability=False, sparse_only=True)

ORACLES = ["phantom", "ac"]


def run(tier, seed):
    return run_kx(
        "C03", tier, seed,
        oracles=ORACLES,
        capacities=[1],
        flavour="full" if tier == "quick" else "wide",
        opts_extra={"sparse_output_only": True, "recomputes": 0},
        rule="every kernel with a compressed output level x dimension vectors x every joint input structure "
             "(all-empty operands, empty rows, stored-but-empty segments, disjoint supports included); for every "
             "compressed output level l the set of stored level prefixes (explicit zeros included, decoded from the "
             "raw arrays of evaluate and of assemble) must be a subset of the projection of the structural support "
             "(product=intersection, sum=union, summation=projection, literal=everywhere) onto levels 0..l",
        extra_phase=runtime_phase,
        assumptions=[
            "only the 'no phantom' direction is demanded; completeness of the stored set is C01's job",
        ],
    )


def replay(path):
    return replay_kx("C03", path, ORACLES)
