"""C16 - work follows sparsity, not dimension size."""

from __future__ import annotations

from ._kxcheck import replay_kx, run_kx

ORACLES = ["work"]


def run(tier, seed):
    return run_kx(
        "C16", tier, seed,
        oracles=ORACLES,
        capacities=[1],
        flavour="full" if tier == "quick" else "wide",
        opts_extra={"scalings": (1, 2, 10, 10000), "deviations": False},
        rule="every (kernel, index) meeting the hypothesis (every tensor that has the index - output included - "
             "stores it in a compressed level, every expanded product mentions it) x every joint structure: the "
             "evaluate kernel, and the assemble kernel followed by the compute kernel, are run with that dimension scaled x1, x2, x10, x10^4 with the stored entries kept, and "
             "again with the entries moved to the far end of the enlarged dimension; the per-loop-site iteration "
             "counts and the total statement count of the abstract machine must be identical across all runs",
        assumptions=["work is measured in IR statements/loop iterations of the abstract machine, not wall-clock"],
        nontrivial_rule="states of kernels that have a qualifying index (see work-scaling runs counter) and whose "
                        "evaluate run executed at least one loop iteration with a stored input entry",
    )


def replay(path):
    return replay_kx("C16", path, ORACLES)
