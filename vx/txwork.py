"""Work units of the IR tree explorer: peephole equivalence (C07b) and printer conformance (C06b)."""

from __future__ import annotations

import os
import shutil
import struct
import subprocess
import time
from collections import Counter

from tensora.ir import ast as ir

from . import tx
from .am import Fault
from .common import BUILD_DIR, cap_findings, too_many


def _f(props, kind, what, case, **sig):
    return {"props": props, "signature": {"kind": kind, **sig}, "what": what, "case": case}


def rule_name(orig, opt):
    """Which peephole rule fired at the root (for signatures): '<Op> -> <what remains>'."""
    return f"{type(orig).__name__}->{type(opt).__name__}"


def show(node):
    from tensora.codegen._ir_to_c import ir_to_c_expression, ir_to_c_statement

    try:
        if isinstance(node, ir.Expression):
            return ir_to_c_expression(node)
        return " ".join(ir_to_c_statement(node))
    except Exception:  # noqa: BLE001
        return repr(node)


def demoted(orig, opt, ty):
    """Does the rewrite turn a double-typed expression into an int32-typed one (1.0 * i => i)?"""
    return ty == tx.FLT and expr_type(opt) == tx.INT


def expr_type(e):
    if isinstance(e, (ir.IntegerLiteral, ir.Min, ir.Max, ir.BooleanToInteger)):
        return tx.INT
    if isinstance(e, ir.FloatLiteral):
        return tx.FLT
    if isinstance(e, (ir.BooleanLiteral, ir.And, ir.Or, *tx.CMP)):
        return tx.BOOL
    if isinstance(e, ir.Variable):
        return {"xi": tx.INT, "yi": tx.INT, "xf": tx.FLT, "xb": tx.BOOL}.get(e.name, tx.INT)
    if isinstance(e, ir.ArrayIndex):
        return tx.INT if e.target == tx.A else tx.FLT
    if isinstance(e, tx.ARITH):
        l, r = expr_type(e.left), expr_type(e.right)
        return tx.INT if l == tx.INT and r == tx.INT else tx.FLT
    return "?"


def contains_demotion(orig, opt):
    """True if somewhere a double-typed subexpression was replaced by an int-typed one."""
    return _any_demotion(orig)


def _any_demotion(e):
    # a rewrite 1.0 * i => i or 0.0 + i => i or i - 0.0 => i, with i int-typed
    if isinstance(e, (ir.Add, ir.Multiply, ir.Subtract)):
        l, r = e.left, e.right
        one_or_zero = (ir.FloatLiteral(1.0), ir.FloatLiteral(0.0))
        if (l in one_or_zero and expr_type(r) == tx.INT) or (r in one_or_zero and expr_type(l) == tx.INT):
            return True
    for f in getattr(e, "__dataclass_fields__", {}):
        v = getattr(e, f)
        if isinstance(v, ir.Statement) and _any_demotion(v):
            return True
        if isinstance(v, list) and any(isinstance(x, ir.Statement) and _any_demotion(x) for x in v):
            return True
    return False


def check_expression(e, ty, int_env, stats, findings, flt_env=tx.FLT_ENV):
    from tensora.ir._peephole import peephole_expression

    try:
        opt = peephole_expression(e)
    except Exception as ex:  # noqa: BLE001
        findings.append(_f(["C07"], "peephole-raises", f"peephole_expression raised {type(ex).__name__} on {show(e)}",
                           {"tree": repr(e)}, exception=type(ex).__name__))
        return
    if opt == e:
        stats["expressions unchanged"] += 1
        return
    stats["expressions rewritten"] += 1
    f0 = tx.wrap("f", [tx.expr_statement(e, ty)])
    f1 = tx.wrap("f", [tx.expr_statement(opt, ty)])
    for a0, v0 in tx.environments(tx.used_vars(e), int_env, flt_env=flt_env):
        stats["expression evaluations"] += 1
        d = tx.compare_runs(f0, f1, a0, v0)
        if d == "original-unsafe":
            stats["states excluded (original unsafe)"] += 1
        elif d is not None:
            findings.append(_f(["C07"], "peephole-changes-meaning",
                               f"{show(e)}  =>  {show(opt)} : {d} (xi={a0[3]}, yi={a0[4]}, xf={v0[3]}, xb={a0[5]})",
                               {"original": show(e), "optimised": show(opt), "tree": repr(e), "a": a0, "v": v0},
                               demotes_double_to_int32=_any_demotion(e),
                               fault_only=d.startswith("optimised program faults")))
            return


def check_statement(s, int_env, stats, findings):
    from tensora.ir._peephole import peephole_statement

    try:
        opt = peephole_statement(s)
    except Exception as ex:  # noqa: BLE001
        findings.append(_f(["C07"], "peephole-raises", f"peephole_statement raised {type(ex).__name__} on {show(s)}",
                           {"tree": repr(s)}, exception=type(ex).__name__))
        return
    if opt == s:
        stats["statements unchanged"] += 1
        return
    stats["statements rewritten"] += 1
    f0 = tx.wrap("f", [s])
    f1 = tx.wrap("f", [opt])
    for a0, v0 in tx.environments(tx.used_vars(s), int_env):
        stats["statement evaluations"] += 1
        d = tx.compare_runs(f0, f1, a0, v0)
        if d == "original-unsafe":
            stats["states excluded (original unsafe)"] += 1
        elif d is not None:
            findings.append(_f(["C07"], "peephole-changes-meaning",
                               f"{show(s)}  =>  {show(opt)} : {d} (xi={a0[3]}, yi={a0[4]}, xf={v0[3]}, xb={a0[5]})",
                               {"original": show(s), "optimised": show(opt), "tree": repr(s), "a": a0, "v": v0},
                               demotes_double_to_int32=_any_demotion(s),
                               fault_only=d.startswith("optimised program faults")))
            return


def work_peephole(unit):
    t0 = time.time()
    stats = Counter()
    findings = []
    int_env = tx.INT_ENV_BIG
    n = 0
    what = unit["what"]
    if what == "d1":
        for e, ty in tx.leaves() + tx.depth1():
            n += 1
            check_expression(e, ty, int_env, stats, findings)
    elif what == "d2":
        blocks = list(tx.depth2_blocks(unit["nblocks"]))
        left, right = blocks[unit["block"]]
        for e, ty in tx.combine(left, right) + (tx.unary(left) if unit["block"] == 0 else []):
            n += 1
            check_expression(e, ty, int_env, stats, findings)
            if too_many(findings):
                break
    elif what == "families":
        for e, ty in tx.precedence_family(4) + tx.paren_edge_family() + tx.logic_family() + tx.literal_family():
            n += 1
            check_expression(e, ty, int_env, stats, findings)
        for e, ty in tx.rounding_family():
            n += 1
            check_expression(e, ty, int_env, stats, findings, flt_env=tx.FLT_ENV + tx.FLT_ENV_INEXACT)
    elif what == "statements":
        pool = tx.simple_statements() + tx.compound_statements(unit.get("depth2", True))
        for s in pool[unit["part"] :: unit["parts"]]:
            n += 1
            check_statement(s, tx.INT_ENV, stats, findings)
    stats["trees"] = n
    return {"stats": dict(stats), "findings": cap_findings(findings), "n": n, "wall": time.time() - t0}


# ------------------------------------------------------------------------ printers (C06b)

RUNNER_C = r"""
#include <stdint.h>
#include <string.h>
typedef int32_t (*fn_t)(int32_t*, double*);
/* runs fns[i] on every environment e with mask[i*nenv+e] set; writes the final arrays */
void run_all(fn_t* fns, int nfn, const int32_t* env_a, const double* env_v, int nenv,
             const uint8_t* mask, int32_t* out_a, double* out_v, int32_t* out_r) {
  for (int i = 0; i < nfn; i++) for (int e = 0; e < nenv; e++) {
    int32_t* a = out_a + ((long)i * nenv + e) * 8;
    double* v = out_v + ((long)i * nenv + e) * 5;
    memcpy(a, env_a + e * 8, 8 * sizeof(int32_t));
    memcpy(v, env_v + e * 5, 5 * sizeof(double));
    out_r[(long)i * nenv + e] = mask[(long)i * nenv + e] ? fns[i](a, v) : -99;
  }
}
"""


def work_printers(unit):
    """Print a batch of trees with the real printers, compile (gcc, MCJIT), run, compare with the AM."""
    import cffi

    from tensora.codegen import ir_to_c
    from tensora.compile._compile_cffi import taco_define_header
    from tensora.compile._compile_llvm import compile_module

    t0 = time.time()
    stats = Counter()
    findings = []
    trees = select_trees(unit)
    fns = []
    for k, (kind, node, ty) in enumerate(trees):
        body = [tx.expr_statement(node, ty)] if kind == "e" else [node]
        fns.append(tx.wrap(f"f{k}", body))
    envs = list(tx.environments(set(), tx.INT_ENV, all_vars=True))
    nenv = len(envs)
    # --- abstract machine: expected final arrays, and which (tree, env) pairs are safe
    expected = {}
    mask = bytearray(len(fns) * nenv)
    for i, fn in enumerate(fns):
        for e, (a0, v0) in enumerate(envs):
            try:
                rv, a1, v1, _m = tx.am_run(fn, a0, v0)
            except Fault:
                stats["states excluded (unsafe on the AM)"] += 1
                continue
            mask[i * nenv + e] = 1
            expected[(i, e)] = (rv, list(a1), list(v1))
    stats["trees"] = len(fns)
    stats["safe states"] = len(expected)
    module = ir.Module(fns)
    workdir = os.path.join(BUILD_DIR, "tx", f"{os.getpid()}_{unit['tag']}")
    shutil.rmtree(workdir, ignore_errors=True)
    os.makedirs(workdir)
    ffi = cffi.FFI()
    ffi.cdef("typedef int32_t (*fn_t)(int32_t*, double*);"
             "void run_all(fn_t*, int, const int32_t*, const double*, int, const uint8_t*, int32_t*, double*, int32_t*);")
    with open(os.path.join(workdir, "runner.c"), "w") as f:
        f.write(RUNNER_C)
    backends = {}
    try:
        c_text = ir_to_c(module)
    except Exception as ex:  # noqa: BLE001
        findings.append(_f(["C06"], "printer-crash", f"ir_to_c raised {type(ex).__name__}: {ex}", {"unit": unit},
                           backend="c", exception=type(ex).__name__))
        c_text = None
    if c_text is not None:
        with open(os.path.join(workdir, "trees.c"), "w") as f:
            f.write("#include <stdint.h>\n#include <stdlib.h>\n" + taco_define_header + c_text + "\n")
            f.write("typedef int32_t (*fn_t)(int32_t*, double*);\nfn_t tx_table[] = {" +
                    ", ".join(f"f{k}" for k in range(len(fns))) + "};\n")
        so = os.path.join(workdir, "trees.so")
        p = subprocess.run(["gcc", "-std=c99", unit.get("opt", "-O1"), "-w", "-shared", "-fPIC", "-o", so,
                            os.path.join(workdir, "trees.c"), os.path.join(workdir, "runner.c")],
                           capture_output=True, text=True)
        if p.returncode != 0:
            findings.append(_f(["C06"], "toolchain-reject", f"gcc rejects the printed C: {p.stderr[:500]}", {"unit": unit},
                               backend="gcc"))
        else:
            lib = ffi.dlopen(so)
            ffi.cdef("extern fn_t tx_table[];")
            backends["gcc"] = (lib, lib.tx_table)
    try:
        engine = compile_module(module)
        runner_so = os.path.join(workdir, "runner.so")
        subprocess.run(["gcc", "-O1", "-shared", "-fPIC", "-o", runner_so, os.path.join(workdir, "runner.c")], check=True)
        rlib = ffi.dlopen(runner_so)
        table = ffi.new("fn_t[]", len(fns))
        for k in range(len(fns)):
            table[k] = ffi.cast("fn_t", engine.get_function_address(f"f{k}"))
        backends["jit"] = (rlib, table)
    except Exception as ex:  # noqa: BLE001
        findings.append(_f(["C06"], "printer-crash", f"ir_to_llvm / MCJIT raised {type(ex).__name__}: {str(ex)[:300]}",
                           {"unit": unit}, backend="llvm", exception=type(ex).__name__))
    env_a = ffi.new("int32_t[]", [x for a0, _ in envs for x in a0])
    env_v = ffi.new("double[]", [x for _, v0 in envs for x in v0])
    cmask = ffi.new("uint8_t[]", bytes(mask))
    validated = 0
    for name, (lib, table) in backends.items():
        out_a = ffi.new("int32_t[]", len(fns) * nenv * 8)
        out_v = ffi.new("double[]", len(fns) * nenv * 5)
        out_r = ffi.new("int32_t[]", len(fns) * nenv)
        lib.run_all(table, len(fns), env_a, env_v, nenv, cmask, out_a, out_v, out_r)
        ba = ffi.buffer(out_a)[:]
        bv = ffi.buffer(out_v)[:]
        for (i, e), (rv, a1, v1) in expected.items():
            off = i * nenv + e
            ga = struct.unpack_from("<8i", ba, off * 32)
            gvb = bv[off * 40 : off * 40 + 40]
            evb = struct.pack("<5d", *[float(x) for x in v1])
            # gcc folds 0.0 - (double)int to a negation (even at -O0), which yields -0.0 where IEEE
            # subtraction yields +0.0: a compiler artefact, not a printer defect - so zeros compare equal
            if gvb != evb and struct.unpack("<5d", gvb) == struct.unpack("<5d", evb):
                gvb = evb
            if out_r[off] != rv or list(ga) != a1 or gvb != evb:
                kind, node, ty = trees[i]
                gv = struct.unpack("<5d", gvb)
                findings.append(_f(["C06"], "printer-mismatch",
                                   f"{name}: {show(node)} with xi={envs[e][0][3]} yi={envs[e][0][4]} xf={envs[e][1][3]} "
                                   f"xb={envs[e][0][5]}: got a={list(ga)} v={list(gv)}, abstract machine says a={a1} v={v1}",
                                   {"tree": repr(node), "c": show(node), "env": [envs[e][0], envs[e][1]]}, backend=name,
                                   right_nested=_right_nested(node)))
                break
            validated += 1
    if not unit.get("keep"):
        shutil.rmtree(workdir, ignore_errors=True)
    sample = None
    if trees:
        kind, node, ty = trees[len(trees) // 2]
        sample = {"tree_as_c": show(node), "environments": nenv, "backends": sorted(backends)}
    return {"stats": dict(stats), "findings": cap_findings(findings), "n": len(fns), "validated": validated,
            "states": len(expected), "sample": sample, "wall": time.time() - t0}


def _right_nested(e):
    if isinstance(e, (ir.Add, ir.Multiply)) and type(e.right) is type(e):
        return True
    for f in getattr(e, "__dataclass_fields__", {}):
        v = getattr(e, f)
        if isinstance(v, ir.Statement) and _right_nested(v):
            return True
        if isinstance(v, list) and any(isinstance(x, ir.Statement) and _right_nested(x) for x in v):
            return True
    return False


def printer_tree_count(tier):
    return len(all_printer_trees(tier))


_TREES = {}


def all_printer_trees(tier):
    if tier not in _TREES:
        trees = [("e", e, ty) for e, ty in tx.leaves() + tx.depth1()]
        trees += [("e", e, ty) for e, ty in tx.precedence_family(4 if tier == "thorough" else 3)]
        lf = tx.logic_family()
        trees += [("e", e, ty) for e, ty in (lf if tier == "thorough" else lf[::4])]
        trees += [("e", e, ty) for e, ty in tx.literal_family() + tx.paren_edge_family()]
        trees += [("s", s, None) for s in tx.simple_statements()]
        cs = tx.compound_statements(True)
        trees += [("s", s, None) for s in (cs if tier == "thorough" else cs[::3])]
        _TREES[tier] = trees
    return _TREES[tier]


def select_trees(unit):
    trees = all_printer_trees(unit["tier"])
    return trees[unit["part"] :: unit["parts"]]


# ------------------------------------------------------------------------------ replay


def tree_from_repr(text):
    """IR dataclass reprs are constructor expressions: rebuild the tree from the recorded repr."""
    from tensora.ir import types as T

    ns = {k: getattr(ir, k) for k in ir.__all__}
    ns.update({"Integer": T.Integer, "Float": T.Float, "Boolean": T.Boolean, "Pointer": T.Pointer, "Array": T.Array})
    return eval(text, {"__builtins__": {}}, ns)  # noqa: S307 - text written by this harness


def replay_peephole(case):
    """Re-evaluate one recorded C07(b) case twice; returns the findings of the second run."""
    node = tree_from_repr(case["tree"])
    outs = []
    for _ in range(2):
        stats, findings = Counter(), []
        if isinstance(node, ir.Expression):
            check_expression(node, expr_type(node), tx.INT_ENV_BIG, stats, findings,
                             flt_env=tx.FLT_ENV + tx.FLT_ENV_INEXACT)
        else:
            check_statement(node, tx.INT_ENV, stats, findings)
        outs.append([f["what"] for f in findings])
    if outs[0] != outs[1]:
        raise RuntimeError(f"replay diverged: {outs}")
    return outs[1]


def replay_printers(case):
    """Re-run one recorded C06(b) tree through the printers, gcc and MCJIT."""
    node = tree_from_repr(case["tree"])
    kind = "e" if isinstance(node, ir.Expression) else "s"
    _TREES["replay"] = [(kind, node, expr_type(node) if kind == "e" else None)]
    outs = []
    for k in range(2):
        r = work_printers({"tier": "replay", "part": 0, "parts": 1, "tag": f"replay{k}"})
        outs.append([f["what"] for f in r["findings"]])
    if outs[0] != outs[1]:
        raise RuntimeError(f"replay diverged: {outs}")
    return outs[1]
