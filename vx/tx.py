"""TX: IR tree explorer.

Enumerates all well-typed IR expression / statement trees within a bound and evaluates them on all
environments of a small domain.  Used twice:
  C07(b)  peephole_expression / peephole_statement output vs input on the abstract machine;
  C06(b)  the same trees printed by the real ir_to_c / ir_to_llvm, compiled (gcc, MCJIT) and run
          natively, compared with the abstract machine.

Harness shape: every tree is wrapped in   int32_t f(int32_t* a, double* v)   whose prologue loads
the scalar variables from the arrays (xi = a[3], yi = a[4], xf = v[3], xb = a[5] == 1), whose
epilogue stores them back, and which stores an expression's value to v[4] / a[6] / a[7].  The whole
observable state is therefore the two arrays, for the AM and for native code alike.
"""

from __future__ import annotations

import itertools

from tensora.ir import ast as ir
from tensora.ir import types as T

from .am import NULL, Fault, Machine, Ptr

INT, FLT, BOOL = "int", "float", "bool"

A_LEN, V_LEN = 8, 5
A_INIT = [1, 0, 2]
V_INIT = [1.0, 0.0, 2.5]

INT_ENV = (-1, 0, 1, 2)
INT_ENV_BIG = (-1, 0, 1, 2, 46341)
FLT_ENV = (-1.5, 0.0, 1.0, 2.5)

XI, YI, XF, XB = ir.Variable("xi"), ir.Variable("yi"), ir.Variable("xf"), ir.Variable("xb")
A, V = ir.Variable("a"), ir.Variable("v")

CMP = (ir.Equal, ir.NotEqual, ir.LessThan, ir.GreaterThan, ir.LessThanOrEqual, ir.GreaterThanOrEqual)
ARITH = (ir.Add, ir.Subtract, ir.Multiply)


def leaves(full=True):
    out = [
        (ir.IntegerLiteral(0), INT), (ir.IntegerLiteral(1), INT), (ir.IntegerLiteral(2), INT),
        (ir.IntegerLiteral(-1), INT),  # what subtraction desugars to
        (ir.FloatLiteral(0.0), FLT), (ir.FloatLiteral(1.0), FLT), (ir.FloatLiteral(2.5), FLT),
        (ir.FloatLiteral(-1.0), FLT),
        (ir.BooleanLiteral(True), BOOL), (ir.BooleanLiteral(False), BOOL),
        (XI, INT), (YI, INT), (XF, FLT), (XB, BOOL),
    ]
    if full:
        out += [(ir.ArrayIndex(A, XI), INT), (ir.ArrayIndex(V, XI), FLT)]
    return out


def combine(pool_l, pool_r=None, ops="all"):
    """All well-typed one-operator expressions over the given operand pools."""
    pool_r = pool_l if pool_r is None else pool_r
    out = []
    num_l = [(e, t) for e, t in pool_l if t in (INT, FLT)]
    num_r = [(e, t) for e, t in pool_r if t in (INT, FLT)]
    int_l = [e for e, t in pool_l if t == INT]
    int_r = [e for e, t in pool_r if t == INT]
    bool_l = [e for e, t in pool_l if t == BOOL]
    bool_r = [e for e, t in pool_r if t == BOOL]
    if ops in ("all", "arith"):
        for op in ARITH:
            for (l, tl), (r, tr) in itertools.product(num_l, num_r):
                out.append((op(l, r), INT if tl == INT and tr == INT else FLT))
    if ops in ("all", "logic"):
        for op in CMP:
            for l, r in itertools.product(int_l, int_r):
                out.append((op(l, r), BOOL))
        for op in (ir.Min, ir.Max):
            for l, r in itertools.product(int_l, int_r):
                out.append((op(l, r), INT))
        for op in (ir.And, ir.Or):
            for l, r in itertools.product(bool_l, bool_r):
                out.append((op(l, r), BOOL))
    return out


def unary(pool):
    return [(ir.BooleanToInteger(e), INT) for e, t in pool if t == BOOL]


def depth1():
    L = leaves()
    return combine(L) + unary(L)


def depth2_blocks(nblocks):
    """Depth-2 expressions, partitioned into nblocks work units by the left operand."""
    L = leaves()
    D1 = L + depth1()
    for k in range(nblocks):
        yield D1[k::nblocks], D1


def precedence_family(max_leaves=4):
    """All trees with <= max_leaves leaves of any shape over + - * with every leaf a distinct int or
    float variable (all typings): the set that decides parenthesisation, associativity, promotion."""
    from .space import tree_shapes

    ivars = [ir.ArrayIndex(A, ir.IntegerLiteral(k)) for k in range(3)] + [XI]
    fvars = [ir.ArrayIndex(V, ir.IntegerLiteral(k)) for k in range(3)] + [XF]
    out = []
    for n in range(2, max_leaves + 1):
        for shape in tree_shapes(n):
            for typing in itertools.product((INT, FLT), repeat=n):
                leaf = [(ivars[k], INT) if typing[k] == INT else (fvars[k], FLT) for k in range(n)]
                for ops in itertools.product(ARITH, repeat=n - 1):
                    it = iter(leaf)
                    oi = iter(ops)

                    def rec(s):
                        if s == "L":
                            return next(it)
                        op = next(oi)
                        (l, tl), (r, tr) = rec(s[0]), rec(s[1])
                        return op(l, r), (INT if tl == INT and tr == INT else FLT)

                    out.append(rec(shape))
    return out


def paren_edge_family():
    """Operands whose printed text begins with "(" and ends with ")" without being parenthesised as a whole -
    (a + b) * c + d * (e + f), (int32_t)(..) + TACO_MAX(..) - placed where the C printer must add parentheses
    (factor of a product, right operand of a subtraction, operand of &&).  A printer that decides from the text
    instead of the tree gets exactly these wrong."""
    a0, a1, a2 = (ir.ArrayIndex(A, ir.IntegerLiteral(k)) for k in range(3))
    v0, v1, v2 = (ir.ArrayIndex(V, ir.IntegerLiteral(k)) for k in range(3))
    out = []
    for (p, q, r, z, ty) in ((a0, a1, a2, XI, INT), (v0, v1, v2, XF, FLT), (a0, v1, a2, XF, FLT)):
        starts = [ir.Multiply(ir.Add(p, q), r), ir.Multiply(ir.Subtract(p, q), r)]
        ends = [ir.Multiply(r, ir.Add(p, q)), ir.Multiply(q, ir.Subtract(r, p))]
        if ty == INT:
            starts.append(ir.BooleanToInteger(ir.Equal(p, q)))
            ends += [ir.Max(p, q), ir.Min(q, r), ir.BooleanToInteger(ir.LessThan(p, r))]
        for L in starts:
            for R in ends:
                for X in (ir.Add(L, R), ir.Subtract(L, R)):
                    out += [(ir.Multiply(X, z), ty), (ir.Multiply(z, X), ty), (ir.Subtract(z, X), ty),
                            (ir.Subtract(X, z), ty), (ir.Add(z, X), ty)]
    # booleans: (x || y) && z printed from text
    lb = ir.And(ir.Or(XB, ir.LessThan(XI, YI)), ir.BooleanLiteral(True))
    for L in (ir.And(ir.Or(XB, ir.LessThan(XI, YI)), ir.Equal(XI, XI)), ir.Equal(ir.BooleanToInteger(XB), ir.IntegerLiteral(1))):
        for R in (ir.And(ir.Equal(YI, YI), ir.Or(ir.GreaterThan(XI, YI), XB)), ir.Equal(ir.IntegerLiteral(0), ir.Max(XI, YI))):
            out += [(ir.And(ir.Or(L, R), ir.GreaterThan(YI, XI)), BOOL), (ir.And(ir.GreaterThan(YI, XI), ir.Or(L, R)), BOOL)]
    del lb
    return out


TRICKY_FLOATS = [0.1, 0.30000000000000004, 1 / 3, 1e-5, 1e22, 1.5e300, 5e-324, 2.2250738585072014e-308,
                 1.7976931348623157e308, 9007199254740992.0, 123456789.12345679, 12345678901234567.0, -0.0, -2.5]
TRICKY_INTS = [2147483647, -2147483648, -1, 65536, 46341]


def literal_family():
    """Every literal spelling class on its own and next to a variable: what the printers must carry over
    digit for digit (17 significant digits for a double, the int32 extremes)."""
    out = []
    for v in TRICKY_FLOATS:
        lit = ir.FloatLiteral(v)
        out += [(lit, FLT), (ir.Multiply(XF, lit), FLT), (ir.Add(lit, XI), FLT), (ir.Subtract(XF, lit), FLT)]
    for v in TRICKY_INTS:
        lit = ir.IntegerLiteral(v)
        out += [(lit, INT), (ir.Max(XI, lit), INT), (ir.Multiply(XF, lit), FLT), (ir.LessThan(XI, lit), BOOL)]
    return out


FLT_ENV_INEXACT = (0.1, 0.7, 1.1, 2.3)


def rounding_family():
    """Chains of two arithmetic operators with literals whose significands are not powers of two:
    the trees on which a re-association, distribution or constant-folding rule changes the last bit
    (evaluated on the inexact float environment)."""
    lits = [ir.FloatLiteral(3.0), ir.FloatLiteral(7.0), ir.FloatLiteral(0.1), ir.IntegerLiteral(3), ir.IntegerLiteral(7)]
    out = []
    for c1 in lits:
        for c2 in lits:
            for o1 in ARITH:
                for o2 in ARITH:
                    out.append((o2(o1(XF, c1), c2), FLT))
                    out.append((o2(c1, o1(XF, c2)), FLT))
                    out.append((o2(o1(c1, XF), c2), FLT))
                    out.append((o2(o1(XF, c1), o1(XF, c2)), FLT))
                    out.append((o2(o1(c1, c2), XF), FLT))
    return out


def logic_family():
    """Depth-2 trees whose operators are comparisons / min / max / and / or / bool-to-int over a
    reduced leaf set (precedence of && over ||, nesting of comparisons inside logic)."""
    L = [(XI, INT), (YI, INT), (ir.IntegerLiteral(1), INT), (XB, BOOL), (ir.BooleanLiteral(True), BOOL),
         (ir.BooleanLiteral(False), BOOL)]
    d1 = combine(L, ops="logic") + unary(L)
    pool = L + d1
    out = combine(pool, ops="logic") + unary(pool)
    # arithmetic on top of min/max/bool-to-int (e.g. p += (int32_t)(i == j))
    ints = [(e, t) for e, t in d1 if t == INT]
    out += combine(ints + [(XI, INT), (ir.IntegerLiteral(2), INT)], ops="arith")
    return out


# ------------------------------------------------------------------------ statements


def simple_statements():
    """Assignments to variables / array cells incl. the compound-assignment sugar shapes."""
    one, two, zero = ir.IntegerLiteral(1), ir.IntegerLiteral(2), ir.IntegerLiteral(0)
    a0, a1, ayi = ir.ArrayIndex(A, zero), ir.ArrayIndex(A, one), ir.ArrayIndex(A, YI)
    v0, v1, vyi = ir.ArrayIndex(V, zero), ir.ArrayIndex(V, one), ir.ArrayIndex(V, YI)
    S = []
    int_targets = [XI, a0, ayi]
    flt_targets = [XF, v0, vyi]
    int_rhs = [zero, one, YI, ir.Add(XI, one), ir.Subtract(XI, one), ir.Add(XI, YI), ir.Multiply(XI, two),
               ir.Multiply(XI, zero), ir.Add(zero, XI), ir.Multiply(one, XI), a1, ir.Add(a0, one),
               ir.Subtract(XI, ir.Subtract(YI, one)), ir.Add(XI, ir.Add(YI, one)), ir.Max(XI, YI),
               ir.BooleanToInteger(ir.Equal(XI, YI)), ir.Subtract(zero, XI)]
    flt_rhs = [ir.FloatLiteral(0.0), ir.FloatLiteral(2.5), one, XI, ir.Add(XF, one), ir.Add(XF, ir.FloatLiteral(2.5)),
               ir.Multiply(XF, two), ir.Subtract(XF, one), ir.Multiply(XF, ir.FloatLiteral(1.0)),
               ir.Add(ir.FloatLiteral(0.0), XF), ir.Multiply(XF, ir.FloatLiteral(0.0)), v1, ir.Add(v0, v1),
               ir.Multiply(ir.Add(XF, one), XI), ir.Subtract(XF, ir.Subtract(v1, XI)), ir.Multiply(XI, YI)]
    for t in int_targets:
        S.append(ir.Assignment(t, t))
        for r in int_rhs:
            S.append(ir.Assignment(t, r))
        for op in ARITH:
            S.append(ir.Assignment(t, op(t, two)))
            S.append(ir.Assignment(t, op(t, one)))
            S.append(ir.Assignment(t, op(t, ir.Add(YI, one))))
    for t in flt_targets:
        S.append(ir.Assignment(t, t))
        for r in flt_rhs:
            S.append(ir.Assignment(t, r))
        for op in ARITH:
            S.append(ir.Assignment(t, op(t, two)))
            S.append(ir.Assignment(t, op(t, ir.Add(XF, ir.FloatLiteral(2.5)))))
            S.append(ir.Assignment(t, op(t, ir.Subtract(XF, XI))))
    S.append(ir.Assignment(XB, XB))
    S.append(ir.Assignment(XB, ir.BooleanLiteral(False)))
    S.append(ir.Assignment(XB, ir.LessThan(XI, YI)))
    S.append(ir.Assignment(XB, ir.And(XB, ir.Equal(XI, YI))))
    S.append(ir.DeclarationAssignment(ir.Declaration(ir.Variable("t"), T.integer), ir.Add(XI, one)))
    S.append(ir.DeclarationAssignment(ir.Declaration(ir.Variable("t"), T.float), ir.Multiply(XI, ir.FloatLiteral(1.0))))
    S.append(ir.DeclarationAssignment(ir.Declaration(ir.Variable("t"), T.float), XI))
    return S


def conditions():
    one, zero = ir.IntegerLiteral(1), ir.IntegerLiteral(0)
    return [ir.BooleanLiteral(True), ir.BooleanLiteral(False), XB, ir.LessThan(XI, YI), ir.Equal(XI, XI),
            ir.NotEqual(XI, XI), ir.GreaterThan(XI, zero), ir.And(XB, ir.LessThan(XI, one)),
            ir.Or(XB, ir.Equal(XI, YI)), ir.And(ir.BooleanLiteral(True), XB), ir.Or(XB, ir.BooleanLiteral(False)),
            ir.And(XB, ir.BooleanLiteral(False)), ir.GreaterThanOrEqual(ir.ArrayIndex(A, zero), XI)]


def core_statements():
    """A reduced pool of simple statements used inside compound statements."""
    one, two, zero = ir.IntegerLiteral(1), ir.IntegerLiteral(2), ir.IntegerLiteral(0)
    a0, v0 = ir.ArrayIndex(A, zero), ir.ArrayIndex(V, zero)
    return [
        ir.Assignment(XI, XI), ir.Assignment(XI, ir.Add(XI, one)), ir.Assignment(XI, ir.Subtract(XI, one)),
        ir.Assignment(YI, ir.Add(YI, two)), ir.Assignment(a0, ir.Add(a0, XI)), ir.Assignment(a0, a0),
        ir.Assignment(XF, ir.Multiply(XF, ir.FloatLiteral(1.0))), ir.Assignment(XF, ir.Add(XF, v0)),
        ir.Assignment(v0, ir.Add(v0, ir.FloatLiteral(2.5))), ir.Assignment(v0, ir.Multiply(v0, XI)),
        ir.Assignment(XB, ir.LessThan(XI, YI)), ir.Assignment(ir.ArrayIndex(A, YI), one),
        ir.Assignment(XF, ir.Multiply(ir.FloatLiteral(0.0), XF)),
        ir.DeclarationAssignment(ir.Declaration(ir.Variable("t"), T.integer), ir.Add(XI, one)),
    ]


def else_if_chains():
    """if / else-if chains and nested ifs whose arms repeat, with an outer test that guards an array read in the inner
    one (the shape assemble kernels produce for their written flags): merging arms must keep the order of the tests."""
    zero, one, two = ir.IntegerLiteral(0), ir.IntegerLiteral(1), ir.IntegerLiteral(2)
    outside = ir.Or(ir.LessThan(XI, zero), ir.GreaterThan(XI, two))   # true exactly where a[xi] must not be read
    inside = ir.And(ir.GreaterThanOrEqual(XI, zero), ir.LessThanOrEqual(XI, two))
    guards = [outside, ir.GreaterThan(XI, two), XB, ir.Equal(XI, YI)]
    reads = [ir.Equal(ir.ArrayIndex(A, XI), zero), ir.GreaterThan(ir.ArrayIndex(A, XI), one),
             ir.LessThan(ir.ArrayIndex(A, XI), YI), ir.LessThan(YI, one)]
    a1 = ir.ArrayIndex(A, one)
    arms = [ir.Block([ir.Assignment(a1, ir.Add(a1, one))]), ir.Block([ir.Assignment(XB, ir.BooleanLiteral(True))]),
            ir.Block([ir.Assignment(YI, ir.Add(YI, two))]), ir.Block([])]
    out = []
    for g in guards:
        for t in reads:
            for X in arms[:3]:
                for Y in arms:
                    if X == Y:
                        continue
                    out.append(ir.Branch(g, X, ir.Branch(t, X, Y)))          # if g X else-if t X else Y
                    out.append(ir.Branch(g, Y, ir.Branch(t, X, Y)))          # if g Y else-if t X else Y
                    out.append(ir.Branch(g, X, ir.Branch(t, Y, X)))
                    out.append(ir.Branch(g, X, ir.Branch(t, X, ir.Branch(ir.LessThan(YI, zero), X, Y))))
    for t in reads[:3]:
        for X in arms[:2]:
            for Y in arms[2:]:
                out.append(ir.Branch(inside, ir.Branch(t, X, Y), Y))             # if g { if t X else Y } else Y
                out.append(ir.Branch(inside, ir.Branch(t, X, Y), X))
                out.append(ir.Branch(inside, ir.Block([ir.Branch(t, X, Y)]), Y))
    return out


def compound_statements(depth2=True):
    C = conditions()
    S = core_statements()
    empty = ir.Block([])
    out = []
    blocks = [empty] + [ir.Block([s]) for s in S] + [ir.Block([s1, s2]) for s1 in S for s2 in S[:8]]
    blocks_small = [empty] + [ir.Block([s]) for s in S]
    out += blocks
    out += [ir.Block([s], "comment") for s in S[:3]] + [ir.Block([], "empty with comment")]
    # branches: either arm possibly empty
    for c in C:
        for t in blocks_small:
            for f in blocks_small:
                out.append(ir.Branch(c, t, f))
    # loops: constant-false, a counted loop, empty body, body that optimises to nothing
    dec = ir.Assignment(XI, ir.Subtract(XI, ir.IntegerLiteral(1)))
    pos = ir.GreaterThan(XI, ir.IntegerLiteral(0))
    for body in blocks_small:
        out.append(ir.Loop(ir.BooleanLiteral(False), body))
        out.append(ir.Loop(ir.NotEqual(XI, XI), body))
        out.append(ir.Loop(pos, ir.Block([*body.statements, dec])))
        out.append(ir.Loop(ir.And(pos, ir.BooleanLiteral(True)), ir.Block([dec, *body.statements])))
        out.append(ir.Loop(XB, ir.Block([*body.statements, ir.Assignment(XB, ir.BooleanLiteral(False))])))
    # counting loops (the shape dense iteration ends with): the zero-trip case must leave the counter alone
    inc = ir.Assignment(XI, ir.Add(XI, ir.IntegerLiteral(1)))
    for bound in (YI, ir.IntegerLiteral(0), ir.IntegerLiteral(2), ir.ArrayIndex(A, ir.IntegerLiteral(0))):
        for cmp in (ir.LessThan, ir.LessThanOrEqual, ir.NotEqual):
            if cmp is ir.NotEqual and bound is not YI:
                continue
            out.append(ir.Loop(cmp(XI, bound), ir.Block([inc])))
            out.append(ir.Block([ir.Loop(cmp(XI, bound), ir.Block([inc])), ir.Assignment(ir.ArrayIndex(A, ir.IntegerLiteral(1)), XI)]))
            out.append(ir.Loop(cmp(XI, bound), ir.Block([ir.Assignment(ir.ArrayIndex(V, ir.IntegerLiteral(0)),
                                                          ir.Add(ir.ArrayIndex(V, ir.IntegerLiteral(0)), XF)), inc])))
    out.append(ir.Loop(pos, empty))
    out.append(ir.Loop(XB, empty))
    out.append(ir.Loop(XB, ir.Block([ir.Assignment(XI, XI)])))
    out += else_if_chains()
    if depth2:
        inner = [ir.Branch(c, t, f) for c in C[:6] for t in blocks_small[:5] for f in blocks_small[:3]]
        inner += [ir.Loop(pos, ir.Block([s, dec])) for s in S[:6]] + [ir.Loop(ir.BooleanLiteral(False), ir.Block([S[1]]))]
        for c in C[:8]:
            for i1 in inner[::3]:
                out.append(ir.Branch(c, ir.Block([i1]), empty))
                out.append(ir.Branch(c, empty, ir.Block([i1])))
                out.append(ir.Branch(c, i1, S[1]))
        for i1 in inner:
            out.append(ir.Block([i1, S[4]]))
            out.append(ir.Block([S[1], i1]))
            out.append(ir.Loop(ir.GreaterThan(YI, ir.IntegerLiteral(0)),
                               ir.Block([i1, ir.Assignment(YI, ir.Subtract(YI, ir.IntegerLiteral(1)))])))
    return out


# --------------------------------------------------------------------------- harness


def wrap(name, body_statements):
    """int32_t name(int32_t* a, double* v): prologue, the statements under test, epilogue."""
    i = ir.IntegerLiteral
    pro = [
        ir.DeclarationAssignment(ir.Declaration(XI, T.integer), ir.ArrayIndex(A, i(3))),
        ir.DeclarationAssignment(ir.Declaration(YI, T.integer), ir.ArrayIndex(A, i(4))),
        ir.DeclarationAssignment(ir.Declaration(XF, T.float), ir.ArrayIndex(V, i(3))),
        ir.DeclarationAssignment(ir.Declaration(XB, T.boolean), ir.Equal(ir.ArrayIndex(A, i(5)), i(1))),
    ]
    epi = [
        ir.Assignment(ir.ArrayIndex(A, i(3)), XI),
        ir.Assignment(ir.ArrayIndex(A, i(4)), YI),
        ir.Assignment(ir.ArrayIndex(V, i(3)), XF),
        ir.Assignment(ir.ArrayIndex(A, i(5)), ir.BooleanToInteger(XB)),
        ir.Return(i(0)),
    ]
    return ir.FunctionDefinition(
        ir.Variable(name),
        [ir.Declaration(A, T.Pointer(T.integer)), ir.Declaration(V, T.Pointer(T.float))],
        T.integer,
        ir.Block([*pro, *body_statements, *epi]),
    )


def expr_statement(e, ty):
    i = ir.IntegerLiteral
    if ty == FLT:
        return ir.Assignment(ir.ArrayIndex(V, i(4)), e)
    if ty == INT:
        return ir.Assignment(ir.ArrayIndex(A, i(6)), e)
    return ir.Assignment(ir.ArrayIndex(A, i(7)), ir.BooleanToInteger(e))


def used_vars(node, acc=None):
    acc = set() if acc is None else acc
    if isinstance(node, ir.Variable):
        acc.add(node.name)
        return acc
    for f in getattr(node, "__dataclass_fields__", {}):
        v = getattr(node, f)
        if isinstance(v, ir.Statement):
            used_vars(v, acc)
        elif isinstance(v, list):
            for x in v:
                if isinstance(x, ir.Statement):
                    used_vars(x, acc)
    return acc


def environments(vars_used, int_env=INT_ENV, all_vars=False, flt_env=FLT_ENV):
    """Initial (a, v) arrays for every assignment of the used scalar variables."""
    xi_vals = int_env if (all_vars or "xi" in vars_used) else (1,)
    yi_vals = int_env if (all_vars or "yi" in vars_used) else (2,)
    xf_vals = flt_env if (all_vars or "xf" in vars_used) else (2.5,)
    xb_vals = (0, 1) if (all_vars or "xb" in vars_used) else (1,)
    for xi, yi, xf, xb in itertools.product(xi_vals, yi_vals, xf_vals, xb_vals):
        yield [*A_INIT, xi, yi, xb, 0, 0], [*V_INIT, xf, 0.0]


def am_run(fn, a0, v0, budget=4000, record=False):
    m = Machine(generic=False, budget=budget, record_access=record)
    ab = m.new_block("int", A_LEN, "kernel", a0, label="a")
    vb = m.new_block("float", V_LEN, "kernel", v0, label="v")
    rv = m.call(fn, [Ptr(ab), Ptr(vb)])
    return rv, ab.cells, vb.cells, m


def same_number(x, y):
    return x == y  # int 2 == float 2.0, 0.0 == -0.0


def compare_runs(orig_fn, opt_fn, a0, v0):
    """Returns None (equivalent / original unsafe) or a description of the difference."""
    try:
        r0, a_0, v_0, m0 = am_run(orig_fn, a0, v0, record=True)
    except Fault:
        return "original-unsafe"
    try:
        r1, a_1, v_1, m1 = am_run(opt_fn, a0, v0, record=True)
    except Fault as f:
        return f"optimised program faults where the original does not: {f}"
    if r0 != r1:
        return f"return values differ: {r0} vs {r1}"
    if not all(same_number(x, y) for x, y in zip(a_0, a_1, strict=True)):
        return f"int state differs: {a_0} vs {a_1}"
    if not all(same_number(x, y) for x, y in zip(v_0, v_1, strict=True)):
        return f"float state differs: {v_0} vs {v_1}"
    extra = m1.access - m0.access
    if extra:
        return f"optimised program performs accesses the original did not: {sorted(extra)}"
    return None
