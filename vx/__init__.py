"""vx: bounded-exhaustive model checking of drhagen/tensora (see /verif/DESIGN.md)."""
