"""Real back ends on rounding-sensitive sentences (C06, C12).

A short menu of assignments whose arithmetic meaning differs from a fused or re-associated evaluation
on the chosen doubles: every sentence is evaluated through the real `evaluate_tensora` (llvmlite MCJIT)
and the real `evaluate_cffi` (tensora's own C compile: its compiler flags are part of what is checked)
and each element is compared bit for bit with Python's evaluation of the same text - multiply, round,
add, round, in the order the text says.  The operands are built so that the difference is certain, not
likely: d = fl(b*c) makes `b*c - d` exactly 0 when the product is rounded before the subtraction and
the rounding error of the product when it is not.
"""

from __future__ import annotations

import struct

B = [0.1, 0.2, 0.3, 0.7, 1.1, 1.3, 2.3, 0.9]
C = [0.3, 0.7, 0.9, 1.1, 0.1, 1.7, 0.3, 0.6]
E = [1.9, 0.4, 0.6, 0.2, 1.3, 0.8, 0.5, 1.5]
D = [x * y for x, y in zip(B, C, strict=True)]  # fl(b*c)
ND = [-x for x in D]
N = len(B)

# (sentence, output format, operand values, python meaning per element or None for a contraction)
MENU = [
    ("a(i) = b(i) * c(i) - d(i)", "d", {"b": B, "c": C, "d": D}, lambda k: B[k] * C[k] - D[k]),
    ("a(i) = d(i) - b(i) * c(i)", "d", {"b": B, "c": C, "d": D}, lambda k: D[k] - B[k] * C[k]),
    ("a(i) = e(i) + b(i) * c(i)", "d", {"b": B, "c": C, "e": ND}, lambda k: ND[k] + B[k] * C[k]),
    ("a(i) = b(i) * c(i) + e(i)", "d", {"b": B, "c": C, "e": ND}, lambda k: B[k] * C[k] + ND[k]),
    ("a(i) = (b(i) + c(i)) * e(i) - d(i)", "d", {"b": B, "c": C, "e": E, "d": [(x + y) * z for x, y, z in zip(B, C, E, strict=True)]},
     lambda k: (B[k] + C[k]) * E[k] - (B[k] + C[k]) * E[k]),
    ("a(i) = b(i) * c(i) + d(i) * e(i)", "d", {"b": B, "c": C, "d": ND, "e": [1.0] * N}, lambda k: B[k] * C[k] + ND[k] * 1.0),
    ("a(i) = b(i) * c(i) - d(i)", "s", {"b": B, "c": C, "d": D}, lambda k: B[k] * C[k] - D[k]),
    ("a() = b(i) * c(i)", "", {"b": B, "c": C}, None),
]


def bits(x: float) -> str:
    return struct.pack(">d", x).hex()


def contraction_meaning(b, c):
    acc = 0.0
    for x, y in zip(b, c, strict=True):
        acc = acc + x * y
    return acc


def fused_contraction(b, c):
    from fractions import Fraction

    acc = 0.0
    for x, y in zip(b, c, strict=True):
        acc = float(Fraction(x) * Fraction(y) + Fraction(acc))
    return acc


def run_sentence(k: int, backends=("llvm", "cffi")):
    """Returns (number of elements compared, list of (backend, element, got bits, want bits))."""
    from tensora import Tensor
    from tensora.compile import evaluate_cffi, evaluate_tensora

    text, ofmt, operands, meaning = MENU[k]
    sparse_in = ofmt == "s"
    inputs = {n: Tensor.from_dok({(q,): v for q, v in enumerate(vs)}, dimensions=(N,), format="s" if sparse_in else "d")
              for n, vs in operands.items()}
    if meaning is None:
        want = {(): contraction_meaning(operands["b"], operands["c"])}
        assert fused_contraction(operands["b"], operands["c"]) != want[()], "menu values do not expose a fused accumulation"
    else:
        want = {(q,): meaning(q) for q in range(N)}
    bad = []
    n = 0
    for be in backends:
        ev = evaluate_tensora if be == "llvm" else evaluate_cffi
        got = ev(text, ofmt, **inputs).to_dok(explicit_zeros=True)
        for c, w in want.items():
            n += 1
            g = got.get(c, 0.0)
            if bits(g) != bits(w) and not (g == 0.0 and w == 0.0):
                bad.append((be, list(c), bits(g), bits(w), g, w))
    return n, bad


def work(unit):
    """run_pool entry: one sentence of the menu.  unit = {"k": index, "prop": "C06" | "C12"}."""
    import time
    from collections import Counter

    t0 = time.time()
    k = unit["k"]
    prop = unit["prop"]
    text, ofmt, _operands, _m = MENU[k]
    stats = Counter()
    findings = []
    try:
        n, bad = run_sentence(k)
    except Exception as e:  # noqa: BLE001
        findings.append({"props": [prop], "signature": {"kind": "real-backend-raises", "exception": type(e).__name__},
                         "what": f"{text!r}: {type(e).__name__}: {e}", "case": {"sentence": text, "menu_index": k, "realbe": True}})
        return {"stats": dict(stats), "findings": findings, "n": 0, "samples": [], "wall": time.time() - t0}
    stats["real back ends: elements compared bit for bit"] += n
    for be in sorted({b[0] for b in bad}):
        first = next(b for b in bad if b[0] == be)
        findings.append({
            "props": [prop], "signature": {"kind": "real-backend-rounding", "backend": be},
            "what": f"{text!r} (output {ofmt or 'scalar'}) on the {be} back end: element {first[1]} is {first[4]!r}, "
                    f"the arithmetic of the text gives {first[5]!r} (multiply and add rounded separately, in order)",
            "case": {"sentence": text, "menu_index": k, "output_format": ofmt, "backend": be, "realbe": True,
                     "mismatches": [list(b[:4]) for b in bad if b[0] == be][:4]}})
    samples = [] if bad else [{"sentence": text, "backends": ["llvm", "cffi"], "elements": n, "values": "d = fl(b*c): any fusion shows"}]
    return {"stats": dict(stats), "findings": findings, "n": n, "samples": samples, "wall": time.time() - t0}


def replay(case, prop):
    r = work({"k": case["menu_index"], "prop": prop})
    return [f["what"] for f in r["findings"]]
