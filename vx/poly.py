"""Sparse multivariate polynomials over Q: the "generic" value domain of the abstract machine.

Every stored input cell is a distinct indeterminate, so one execution of a kernel on one sparsity
structure decides the value equation for all real values on that structure (kernels never branch
on a stored value; the machine checks that).
"""

from __future__ import annotations

from fractions import Fraction

__all__ = ["Poly", "ZERO", "ONE"]


class Poly:
    __slots__ = ("t",)

    def __init__(self, t=None):
        self.t = t if t is not None else {}

    @staticmethod
    def var(name: str) -> "Poly":
        return Poly({(name,): Fraction(1)})

    @staticmethod
    def const(c) -> "Poly":
        c = Fraction(c)
        return Poly({(): c} if c else {})

    @staticmethod
    def lift(x) -> "Poly":
        if isinstance(x, Poly):
            return x
        return Poly.const(x)

    def __add__(self, o):
        o = Poly.lift(o)
        t = dict(self.t)
        for m, c in o.t.items():
            v = t.get(m, 0) + c
            if v:
                t[m] = v
            else:
                t.pop(m, None)
        return Poly(t)

    __radd__ = __add__

    def __neg__(self):
        return Poly({m: -c for m, c in self.t.items()})

    def __sub__(self, o):
        return self + (-Poly.lift(o))

    def __rsub__(self, o):
        return Poly.lift(o) - self

    def __mul__(self, o):
        o = Poly.lift(o)
        t = {}
        for m1, c1 in self.t.items():
            for m2, c2 in o.t.items():
                m = tuple(sorted(m1 + m2))
                v = t.get(m, 0) + c1 * c2
                if v:
                    t[m] = v
                else:
                    t.pop(m, None)
        return Poly(t)

    __rmul__ = __mul__

    def __eq__(self, o):
        if isinstance(o, (Poly, int, float, Fraction)):
            return self.t == Poly.lift(o).t
        return NotImplemented

    def __hash__(self):
        return hash(frozenset(self.t.items()))

    def is_zero(self) -> bool:
        return not self.t

    def variables(self) -> set[str]:
        return {v for m in self.t for v in m}

    def subst(self, env: dict) -> Fraction:
        total = Fraction(0)
        for m, c in self.t.items():
            p = c
            for v in m:
                p *= Fraction(env[v])
            total += p
        return total

    def __repr__(self):
        if not self.t:
            return "0"
        parts = []
        for m, c in sorted(self.t.items()):
            mono = "*".join(m)
            if not mono:
                parts.append(str(c))
            elif c == 1:
                parts.append(mono)
            else:
                parts.append(f"{c}*{mono}")
        return " + ".join(parts)


ZERO = Poly.const(0)
ONE = Poly.const(1)
