"""KX: the kernel explorer.

Enumerates programs x formats x dimension vectors x joint sparsity structures (x capacities, set
per worker pool through the TENSORA_VERIF_INITIAL_CAPACITY hook), generates every kernel with the
real generate_module_tensora, executes it on the abstract machine and evaluates the oracles that
the calling check switched on.  Every finding is tagged with the properties it is evidence for.
"""

from __future__ import annotations

import os
import time
from collections import Counter

from tensora.desugar import DiagonalAccessError, NoKernelFoundError
from tensora.format import Mode
from tensora.generate import generate_module_tensora
from tensora.kernel_type import KernelType
from tensora.problem import Problem

from . import space
from .am import Fault, Machine
from .common import cap_findings, too_many, TimeLimit, jsonable
from .poly import Poly
from .refmodel import reference, support, terms
from .tensors import (
    Structure,
    am_decode,
    am_freeze_structure,
    am_input,
    am_output,
    fmt_str,
)

KINDS3 = [KernelType.evaluate, KernelType.assemble, KernelType.compute]
GEN_TIME_LIMIT = 30.0


def capacity_tag():
    return os.environ.get("TENSORA_VERIF_INITIAL_CAPACITY") or "default"


def generate(problem, kinds, unoptimised=False):
    """Run the real generator.  Returns ("ok", module) | ("refused", exc) | ("crash", exc)."""
    if unoptimised:
        os.environ["TENSORA_VERIF_NO_PEEPHOLE"] = "1"
    try:
        with TimeLimit(GEN_TIME_LIMIT, "kernel generation"):
            r = generate_module_tensora(problem, kinds)
    except BaseException as e:  # noqa: BLE001 - anything the generator lets escape is recorded
        if isinstance(e, (KeyboardInterrupt, SystemExit)):
            raise
        return "crash", e
    finally:
        if unoptimised:
            os.environ.pop("TENSORA_VERIF_NO_PEEPHOLE", None)
    try:
        return "ok", r.unwrap()
    except Exception:
        return "refused", r.failure()


def var_name(tensor, coord, gen=0):
    return f"{tensor}{list(coord)}".replace(" ", "") + ("'" * gen)


def make_env(joint, gen=0):
    """name -> (values list aligned with structure paths, dict coord -> Poly)."""
    vals = {}
    env = {}
    for name, st in joint.items():
        coords = st.coords()
        vs = [Poly.var(var_name(name, c, gen)) for c in coords]
        vals[name] = vs
        env[name] = dict(zip(coords, vs, strict=True))
    return vals, env


def step_budget(DIM, joint):
    cells = 1
    for d in DIM.values():
        cells *= max(d, 1)
    stored = sum(len(st.paths) for st in joint.values())
    return 4000 + 400 * (cells + stored) * (1 + len(DIM))


class KernelCase:
    """One generated kernel (program + formats) with helpers to run it on the AM."""

    def __init__(self, prog, names, fmts, module):
        self.prog = prog
        self.names = names
        self.fmts = fmts
        self.module = module
        self.fns = {f.name.name: f for f in module.definitions}
        self.out = prog[0]
        self.ofmt = fmts[self.out]

    def describe(self):
        return {
            "assignment": space.prog_str(self.prog),
            "program": space.prog_json(self.prog),
            "formats": space.fmts_json(self.names, self.fmts),
        }

    def build_args(self, m, fn, DIM, joint, values, out_ts=None):
        odims = tuple(DIM[i] for i in self.prog[1])
        args = []
        ts_out = out_ts
        for p in fn.parameters:
            n = p.name.name
            if n == self.out:
                if ts_out is None:
                    ts_out = am_output(m, n, self.ofmt, odims)
                args.append(ts_out)
            else:
                args.append(am_input(m, n, joint[n], values[n]))
        return args, ts_out, odims


def case_json(kc, DIM, joint, extra=None):
    d = kc.describe()
    d["dimensions"] = dict(DIM)
    d["inputs"] = {n: st.describe() for n, st in joint.items()}
    d["capacity"] = capacity_tag()
    if extra:
        d.update(extra)
    return d


def finding(props, kind, what, case, **sig):
    signature = {"kind": kind, **sig}
    return {"props": props, "signature": signature, "what": what, "case": jsonable(case)}


def compare_values(got, exp):
    """got: stored dict coord->Poly; exp: dense dict coord->Poly. Returns list of bad coords."""
    bad = []
    for c, v in exp.items():
        g = got.get(c)
        if g is None:
            if not v.is_zero():
                bad.append((c, "missing", repr(v)))
        elif g != v:
            bad.append((c, repr(g), repr(v)))
    for c in got:
        if c not in exp:
            bad.append((c, repr(got[c]), "outside the target dimensions"))
    return bad


def level_prefixes(levels, lvl_dims):
    """levels: per level None (dense) or (pos, crd) of a well-formed tensor.  Returns {compressed level l: set of
    level-order coordinate prefixes stored at l} - including prefixes whose child segment is empty, which no
    complete stored coordinate reveals."""
    prefixes = [((), 0)]
    out = {}
    for l, lv in enumerate(levels):
        if lv is None:
            d = lvl_dims[l]
            prefixes = [(p + (x,), q * d + x) for p, q in prefixes for x in range(d)]
        else:
            pos, crd = lv
            prefixes = [(p + (crd[k],), k) for p, q in prefixes for k in range(pos[q], pos[q + 1])]
            out[l] = {p for p, _ in prefixes}
    return out


def phantom_prefixes(stored_coords, sup, ofmt, level_sets=None):
    """Stored level prefixes of compressed output levels without structural support.  With level_sets (from
    level_prefixes) the stored-but-empty prefixes are judged too."""
    out = []
    ordering = ofmt.ordering
    for l, mode in enumerate(ofmt.modes):
        if mode != Mode.compressed:
            continue

        def proj(c, l=l):
            return tuple(c[ordering[k]] for k in range(l + 1))

        sp = {proj(c) for c in sup}
        for c in stored_coords:
            if proj(c) not in sp:
                out.append((l, proj(c)))
        if level_sets is not None:
            for pre in level_sets.get(l, ()):
                if tuple(pre) not in sp:
                    out.append((l, tuple(pre)))
    return sorted(set(out))


def image_level_sets(image, ofmt, odims):
    if image is None:
        return None
    levels = [None if lv is None else (lv["pos"], lv["crd"]) for lv in image["levels"]]
    return level_prefixes(levels, [odims[o] for o in ofmt.ordering])


def image_structure(image):
    if image is None:
        return None
    return [None if lv is None else (tuple(lv["pos"]), tuple(lv["crd"])) for lv in image["levels"]]


def run_evaluate(kc: KernelCase, DIM, joint, opts, stats, refcache):
    """Run the evaluate kernel on one joint structure; returns (findings, info)."""
    out = []
    vals, env = make_env(joint)
    m = Machine(generic=True, budget=step_budget(DIM, joint), lenient_uninit=True, lenient_overflow=True,
                lenient_redeclare=True)
    fn = kc.fns["evaluate"]
    args, ts_out, odims = kc.build_args(m, fn, DIM, joint, vals)
    case = None

    def cj(**extra):
        return case_json(kc, DIM, joint, extra or None)

    info = {"steps": 0, "ok": False, "machine": m}
    try:
        rv = m.call(fn, args)
    except Fault as f:
        info["steps"] = m.steps
        stats[f"evaluate fault {f.kind}"] += 1
        out.append(finding(fault_props(kc, f), "fault", f"evaluate kernel: {f}", cj(fault=str(f)),
                           fault=f.kind, kernel="evaluate"))
        return out, info
    info["steps"] = m.steps
    if rv != 0:
        out.append(finding(["C05"], "return-value", f"evaluate returned {rv}", cj(), kernel="evaluate"))
    for ek, em in m.events:
        if ek == "uninit-read":
            out.append(finding(["C05"], "fault", f"evaluate kernel read uninitialised {em}", cj(),
                               fault="uninit-read", kernel="evaluate"))
            break
    for ek, em in m.events:
        if ek in ("int-overflow", "int-literal-range"):
            out.append(finding(["C05"], "fault", f"evaluate kernel: {em}", cj(), fault=ek, kernel="evaluate"))
            break
    for ek, em in m.events:
        if ek == "redeclared":
            out.append(finding(["C05", "C06", "C08"], "fault", f"evaluate kernel: variable {em} is declared twice in one "
                               "scope (not valid C; the LLVM back end gives both one slot)", cj(),
                               fault="redeclared", kernel="evaluate"))
            break
    for ek, em in m.events:
        if ek == "shadow-divergence":
            out.append(finding(["C06"], "shadow-divergence", f"variable {em} is read after an inner scope "
                               "shadowed and changed it (C block scoping and LLVM's hoisted declarations "
                               "disagree)", cj(), kernel="evaluate"))
            break
    stored, problems, image = am_decode(ts_out, kc.ofmt, odims)
    info["image"] = image
    info["stored"] = stored
    if problems:
        stats["evaluate malformed"] += 1
        props = ["C02"]
        if any(("NULL" in p or "freed" in p or "entries" in p or "uninitialised" in p) for p in problems):
            props.append("C05")
        out.append(finding(props, "malformed", f"evaluate output is not well-formed: {problems[:3]}",
                           cj(problems=problems), kernel="evaluate",
                           clause=_clause(problems[0])))
        if image is None:
            return out, info
    key = tuple((n, tuple(sorted(env[n]))) for n in sorted(env)) + (tuple(sorted(DIM.items())),)
    ref = refcache.get(key)
    if ref is None:
        exp = reference(kc.prog, env, DIM)
        sup = support(kc.prog, {n: set(env[n]) for n in env}, DIM)
        ref = refcache[key] = (exp, sup)
    exp, sup = ref
    bad = compare_values(stored, exp)
    if bad:
        stats["evaluate wrong value"] += 1
        out.append(finding(["C01"], "value", f"evaluate value differs from tensor algebra at {bad[0][0]}: "
                           f"got {bad[0][1]}, expected {bad[0][2]}", cj(mismatches=bad[:4]),
                           kernel="evaluate"))
    ph = phantom_prefixes(list(stored), sup, kc.ofmt, image_level_sets(image, kc.ofmt, odims))
    if ph:
        stats["evaluate phantom"] += 1
        out.append(finding(["C03"], "phantom", f"evaluate stores unsupported coordinate prefix {ph[0][1]} "
                           f"at compressed output level {ph[0][0]}", cj(phantoms=ph[:6]),
                           kernel="evaluate"))
    info["ok"] = not out
    info["exp"] = exp
    info["sup"] = sup
    info["nontrivial"] = bool(m.total_loop_iters) and any(len(st.paths) for st in joint.values())
    return out, info


def fault_props(kc, f):
    """A kernel that writes past an array it allocated for a sparse output (or keeps using an array it
    has reallocated) cannot hand back arrays that supply every stored position: that is evidence
    against C02 as well as C05."""
    props = ["C05"]
    if f.kind in ("oob-write", "use-after-realloc") and any(m == Mode.compressed for m in kc.ofmt.modes):
        props.append("C02")
    return props


def _clause(problem: str) -> str:
    for key in ("pos[0]", "pos decreases", "pos has", "crd has", "not strictly increasing",
                "outside dimension", "vals has", "uninitialised", "NULL", "freed", "stored twice"):
        if key in problem:
            return key
    return "other"


def run_assemble_compute(kc: KernelCase, DIM, joint, opts, stats, einfo):
    """C04 history: assemble; compute; compute with re-valued inputs (x recomputes)."""
    out = []
    m = Machine(generic=True, budget=step_budget(DIM, joint), lenient_uninit=True)
    vals, env = make_env(joint)
    fa = kc.fns["assemble"]
    fc = kc.fns["compute"]

    def cj(**extra):
        return case_json(kc, DIM, joint, extra or None)

    steps = 0
    try:
        args, ts_out, odims = kc.build_args(m, fa, DIM, joint, vals)
        rv = m.call(fa, args)
    except Fault as f:
        stats[f"assemble fault {f.kind}"] += 1
        out.append(finding(fault_props(kc, f), "fault", f"assemble kernel: {f}", cj(fault=str(f)),
                           fault=f.kind, kernel="assemble"))
        return out, m.steps
    if rv != 0:
        out.append(finding(["C05"], "return-value", f"assemble returned {rv}", cj(), kernel="assemble"))
    # what assemble produced, before compute touches it
    _stored_a, problems_a, image_a = am_decode(ts_out, kc.ofmt, odims)
    structural = [p for p in problems_a if "vals uninitialised" not in p]
    if structural:
        props = ["C04", "C02"]
        if any(("NULL" in p or "freed" in p or "entries" in p or "uninitialised" in p) for p in structural):
            props.append("C05")  # same rule as for evaluate: the arrays handed back do not cover the structure
        out.append(finding(props, "malformed", f"assemble output structure is not well-formed: {structural[:3]}",
                           cj(problems=structural), kernel="assemble", clause=_clause(structural[0])))
    am_freeze_structure(ts_out, kc.ofmt)
    n_alloc = (m.allocs, m.reallocs)
    vals_block = ts_out.vals.block
    for gen in range(1 + opts.get("recomputes", 2)):
        if gen > 0:
            vals, env = make_env(joint, gen)
        try:
            args, _, _ = kc.build_args(m, fc, DIM, joint, vals, out_ts=ts_out)
            m.steps = 0
            m.budget = step_budget(DIM, joint)
            rv = m.call(fc, args)
        except Fault as f:
            stats[f"compute fault {f.kind}"] += 1
            props = ["C05"]
            if f.kind in ("write-foreign", "realloc-foreign", "oob-write", "use-after-realloc"):
                props.append("C04")
            out.append(finding(props, "fault", f"compute kernel (run {gen + 1}): {f}", cj(fault=str(f), run=gen + 1),
                               fault=f.kind, kernel="compute"))
            return out, steps
        steps += m.steps
        if rv != 0:
            out.append(finding(["C05"], "return-value", f"compute returned {rv}", cj(), kernel="compute"))
        if (m.allocs, m.reallocs) != n_alloc:
            out.append(finding(["C04"], "compute-allocates", "compute kernel allocated or reallocated memory",
                               cj(run=gen + 1), kernel="compute"))
            n_alloc = (m.allocs, m.reallocs)
        if ts_out.vals.block is not vals_block:
            out.append(finding(["C04"], "compute-replaces-vals", "compute kernel replaced the vals array",
                               cj(run=gen + 1), kernel="compute"))
        for ek, em in m.events:
            if ek == "uninit-read":
                out.append(finding(["C05", "C04"], "fault", f"compute kernel read uninitialised {em}",
                                   cj(run=gen + 1), fault="uninit-read", kernel="compute"))
                break
        m.events.clear()
        stored, problems, image = am_decode(ts_out, kc.ofmt, odims)
        if problems:
            stats["assemble+compute malformed"] += 1
            out.append(finding(["C04", "C02"], "malformed",
                               f"assemble+compute output is not well-formed: {problems[:3]}",
                               cj(problems=problems, run=gen + 1), kernel="assemble+compute",
                               clause=_clause(problems[0])))
            if image is None:
                return out, steps
        eimg = einfo.get("image")
        if gen == 0 and eimg is not None and image_structure(image) != image_structure(eimg):
            stats["A+C structure differs"] += 1
            out.append(finding(["C04"], "structure-differs",
                               "assemble+compute structure differs from evaluate structure",
                               cj(evaluate=image_structure(eimg), assemble=image_structure(image)),
                               kernel="assemble+compute"))
        exp = reference(kc.prog, env, DIM) if gen > 0 or "exp" not in einfo else einfo["exp"]
        bad = compare_values(stored, exp)
        if bad:
            stats["A+C wrong value"] += 1
            out.append(finding(["C04"], "value",
                               f"compute (run {gen + 1}) value differs at {bad[0][0]}: got {bad[0][1]}, "
                               f"expected {bad[0][2]}", cj(mismatches=bad[:4], run=gen + 1),
                               kernel="compute", run=min(gen + 1, 2)))
            break
        if gen == 0 and "sup" in einfo:
            ph = phantom_prefixes(list(stored), einfo["sup"], kc.ofmt, image_level_sets(image, kc.ofmt, odims))
            if ph:
                out.append(finding(["C03", "C04"], "phantom",
                                   f"assemble stores unsupported coordinate prefix {ph[0][1]}",
                                   cj(phantoms=ph[:6]), kernel="assemble+compute"))
    return out, steps


def qualifies_for_work_scaling(prog, fmts):
    """Indexes meeting C16's hypothesis: stored only in compressed levels by every tensor that has
    them (output included), and mentioned by every additive term of the right-hand side."""
    res = []
    tname, tgt, tree = prog
    refs = space.all_refs(prog)
    expanded = terms(tree)
    for x in space.prog_indexes(prog):
        ok = True
        # a tensor referenced with different index tuples ties dimensions together; such an index
        # cannot be scaled on its own with consistent arguments, so it is left out
        for rl in refs.values():
            for r in rl[1:]:
                for a, b in zip(rl[0], r, strict=True):
                    if a != b and x in (a, b):
                        ok = False
        holders = [(tname, tgt)] + [(n, r) for n, rl in refs.items() for r in rl]
        for n, idx in holders:
            if x in idx:
                fmt = fmts[n]
                level = fmt.ordering.index(idx.index(x))
                if fmt.modes[level] != Mode.compressed:
                    ok = False
        for _s, factors in expanded:
            if not any(f[0] == "t" and x in f[2] for f in factors):
                ok = False
        if ok:
            res.append(x)
    return res


def scaled_structure(st: Structure, ref_idx, x, factor, shift):
    """The same stored entries in a dimension `factor` times larger (optionally moved to its end)."""
    d = ref_idx.index(x)
    old = st.dims[d]
    new = old * factor
    dims = list(st.dims)
    dims[d] = new
    level = st.fmt.ordering.index(d)
    levels = list(st.levels)
    paths = st.paths
    if shift and new > old:
        delta = new - old
        pos, crd = levels[level]
        levels[level] = (pos, tuple(c + delta for c in crd))
        paths = [p[:level] + (p[level] + delta,) + p[level + 1 :] for p in paths]
    return Structure(st.fmt, tuple(dims), levels, paths)


def run_work_scaling(kc, DIM, joint, x, opts, stats):
    out = []
    refs = space.operand_refs(kc.prog)
    steps = 0
    for kind in opts.get("work_kinds", ("evaluate", "assemble+compute")):
        base = None
        for shift in (False, True):
            for factor in opts.get("scalings", (1, 2, 10, 10000)):
                if shift and factor == 1:
                    continue
                j2 = {n: (scaled_structure(st, refs[n], x, factor, shift) if x in refs[n] else st)
                      for n, st in joint.items()}
                D2 = dict(DIM)
                D2[x] = DIM[x] * factor
                vals, _env = make_env(j2)
                m = Machine(generic=True, budget=step_budget(DIM, joint) * 4, lenient_uninit=True)
                try:
                    ts_out = None
                    for name in kind.split("+"):
                        args, ts_out, _od = kc.build_args(m, kc.fns[name], D2, j2, vals, out_ts=ts_out)
                        m.call(kc.fns[name], args)
                except Fault as f:
                    out.append(finding(["C16"] if f.kind == "budget" else ["C05"], "work-fault",
                                       f"{kind} with dimension {x} scaled x{factor}: {f}",
                                       case_json(kc, D2, j2, {"index": x, "factor": factor, "shift": shift,
                                                              "kernel": kind}),
                                       fault=f.kind))
                    return out, steps
                steps += m.steps
                # loop sites are identified by their order of first execution + iteration counts
                profile = (m.steps, tuple(sorted(m.loop_iters.items())))
                if base is None:
                    base = profile
                elif profile != base:
                    stats["work depends on dimension"] += 1
                    out.append(finding(["C16"], "work-scales",
                                       f"{kind}: steps/loop iterations change when dimension {x} is scaled x{factor} "
                                       f"(shifted={shift}): {base[0]} -> {profile[0]} steps",
                                       case_json(kc, D2, j2, {"index": x, "factor": factor, "shift": shift,
                                                              "kernel": kind,
                                                              "base_steps": base[0], "steps": profile[0]})))
                    return out, steps
    return out, steps


def heap_summary(m: Machine, ts_out, ofmt, odims):
    stored, problems, image = am_decode(ts_out, ofmt, odims)
    return stored, problems, image


def run_peephole_pair(kc_opt: KernelCase, kc_raw: KernelCase, kind, DIM, joint, opts, stats):
    """C07(a): unoptimised vs optimised kernel on the same state."""
    out = []
    results = []
    for kc in (kc_raw, kc_opt):
        m = Machine(generic=True, budget=step_budget(DIM, joint) * 2, record_access=True)
        vals, _env = make_env(joint)
        fns = [kc.fns[k] for k in (("assemble", "compute") if kind == "ac" else ("evaluate",))]
        rvs = []
        fault = None
        ts_out = None
        try:
            for fn in fns:
                args, ts_out, odims = kc.build_args(m, fn, DIM, joint, vals, out_ts=ts_out)
                rvs.append(m.call(fn, args))
        except Fault as f:
            fault = f
        results.append((m, rvs, fault, ts_out))
    (m0, rv0, f0, o0), (m1, rv1, f1, o1) = results
    steps = m0.steps + m1.steps
    odims = tuple(DIM[i] for i in kc_opt.prog[1])

    def cj(**extra):
        return case_json(kc_opt, DIM, joint, {"kernel": kind, **extra})

    if f0 is not None:
        # the original does not run safely to completion: the property says nothing
        stats["peephole: original unsafe (excluded)"] += 1
        return out, steps
    if f1 is not None:
        out.append(finding(["C07"], "peephole-fault", f"optimised {kind} kernel faults where the original "
                           f"does not: {f1}", cj(fault=str(f1)), fault=f1.kind))
        return out, steps
    if rv0 != rv1:
        out.append(finding(["C07"], "peephole-return", f"return values differ: {rv0} vs {rv1}", cj()))
    s0, p0, i0 = am_decode(o0, kc_opt.ofmt, odims)
    s1, p1, i1 = am_decode(o1, kc_opt.ofmt, odims)
    if image_structure(i0) != image_structure(i1) or s0 != s1 or p0 != p1:
        out.append(finding(["C07"], "peephole-output", "optimised kernel produces a different output tensor",
                           cj(original=[repr(s0), p0], optimised=[repr(s1), p1])))
    # every live kernel block must agree as well
    live0 = [(b.kind, b.cells) for b in m0.blocks if b.owner == "kernel" and not b.freed]
    live1 = [(b.kind, b.cells) for b in m1.blocks if b.owner == "kernel" and not b.freed]
    if live0 != live1:
        out.append(finding(["C07"], "peephole-heap", "optimised kernel leaves different array contents", cj()))
    extra = m1.access - m0.access
    if extra:
        out.append(finding(["C07"], "peephole-access", f"optimised kernel performs accesses the original "
                           f"did not: {sorted(extra)[:4]}", cj()))
    return out, steps


# ----------------------------------------------------------------------------- work unit


def work(unit):
    """One work unit: a program and a slice of its format combinations."""
    t0 = time.time()
    opts = unit["opts"]
    prog = space.prog_from_json(unit["prog"])
    asg = space.to_assignment(prog)
    names, combos = space.format_combos(prog)
    combos = list(combos)[unit["start"] : unit["stop"]]
    stats = Counter()
    findings = []
    samples = []
    refcache = {}
    states = 0
    transitions = 0
    nontrivial = 0
    want = set(opts["oracles"])
    kinds = KINDS3
    cap = opts.get("cap", 64)
    for combo in combos:
        fmts = dict(zip(names, combo, strict=True))
        stats["kernels requested"] += 1
        problem = Problem(asg, fmts)
        status, module = generate(problem, kinds)
        if status == "crash":
            stats[f"generator raised {type(module).__name__}"] += 1
            findings.append(finding(["C08"], "generator-crash",
                                    f"generate_module_tensora raised {type(module).__name__}: {module}",
                                    {"assignment": asg.deparse(), "program": space.prog_json(prog),
                                     "formats": space.fmts_json(names, fmts)},
                                    exception=type(module).__name__))
            continue
        if status == "refused":
            stats[f"refused {type(module).__name__}"] += 1
            if not isinstance(module, (DiagonalAccessError, NoKernelFoundError)):
                findings.append(finding(["C08"], "undocumented-refusal",
                                        f"undocumented failure {type(module).__name__}",
                                        {"assignment": asg.deparse(), "formats": space.fmts_json(names, fmts)},
                                        exception=type(module).__name__))
            continue
        stats["kernels generated"] += 1
        kc = KernelCase(prog, names, fmts, module)
        kc_raw = None
        if "peephole" in want:
            st2, raw = generate(problem, kinds, unoptimised=True)
            if st2 == "ok":
                kc_raw = KernelCase(prog, names, fmts, raw)
                from tensora.ir import peephole as _peephole

                if _peephole(raw) != module:
                    findings.append(finding(["C07"], "peephole-hook", "peephole(unoptimised) != optimised module",
                                            kc.describe()))
        scal_idx = qualifies_for_work_scaling(prog, fmts) if "work" in want else []
        if "work" in want and not scal_idx and want == {"work"}:
            stats["kernels without a qualifying index"] += 1
            continue
        sparse_out = any(mo == Mode.compressed for mo in kc.ofmt.modes)
        if opts.get("sparse_output_only") and not sparse_out:
            stats["kernels skipped (dense output)"] += 1
            continue
        dimvecs = space.dim_vectors(prog, fmts, cap, deviations=opts.get("deviations", True))
        for DIM, tag in dimvecs:
            for joint in space.joint_structures(prog, fmts, DIM):
                states += 1
                f_e, einfo = run_evaluate(kc, DIM, joint, opts, stats, refcache)
                transitions += einfo["steps"]
                findings.extend(f for f in f_e if want_props(f, opts))
                if einfo.get("nontrivial"):
                    nontrivial += 1
                if "ac" in want:
                    f_a, st_ = run_assemble_compute(kc, DIM, joint, opts, stats, einfo)
                    transitions += st_
                    findings.extend(f for f in f_a if want_props(f, opts))
                if kc_raw is not None:
                    for kind in ("evaluate", "ac"):
                        f_p, st_ = run_peephole_pair(kc, kc_raw, kind, DIM, joint, opts, stats)
                        transitions += st_
                        findings.extend(f_p)
                if scal_idx and tag == "default":
                    for x in scal_idx:
                        f_w, st_ = run_work_scaling(kc, DIM, joint, x, opts, stats)
                        transitions += st_
                        findings.extend(f for f in f_w if want_props(f, opts))
                        stats["work-scaling runs"] += 1
                if len(samples) < 2 and einfo.get("ok") and einfo.get("nontrivial"):
                    samples.append({
                        **case_json(kc, DIM, joint),
                        "output": {repr(k): repr(v) for k, v in einfo["stored"].items()},
                        "am_steps": einfo["steps"],
                    })
                if too_many(findings):
                    break
            if too_many(findings):
                break
    return {
        "stats": dict(stats),
        "findings": cap_findings(findings),
        "samples": samples,
        "states": states,
        "transitions": transitions,
        "nontrivial": nontrivial,
        "wall": time.time() - t0,
    }


def want_props(f, opts):
    pid = opts.get("pid")
    return pid is None or pid in f["props"]


# ------------------------------------------------------------------------------ drivers


def make_units(programs, opts, chunk=48):
    units = []
    for prog in programs:
        n = space.count_format_combos(prog)
        for start in range(0, n, chunk):
            units.append({"prog": space.prog_json(prog), "start": start, "stop": min(n, start + chunk),
                          "opts": opts})
    return units


def merge(results, run):
    """Fold worker results into a Run; returns totals."""
    tot = Counter()
    for status, res in results:
        if status == "skipped":
            continue
        if status != "ok":
            run.report({"signature": {"kind": "worker-exception"}, "what": f"harness worker failed: {res}",
                        "case": {}})
            continue
        for k, v in res["stats"].items():
            run.counters[k] += v
        tot["states"] += res["states"]
        tot["transitions"] += res["transitions"]
        tot["nontrivial"] += res["nontrivial"]
        for s in res["samples"]:
            run.sample(s)
        for f in res["findings"]:
            run.report(f)
    return tot
