"""TS: thread-schedule explorer (C14).

A stateless, CHESS-style explorer over the interleavings of real Python threads running real
tensora code.  Every thread runs under sys.settrace; a scheduling point is a `line` event in a file
of the visible set (plus the operations of the scheduler-aware lock that replaces
tensora.compile._compile_cffi.lock).  At a point the thread parks on its own semaphore and the
scheduler decides who runs next, so exactly one thread runs at a time and every execution is a
deterministic function of its choice sequence.  Executions are enumerated depth-first under an
iterated preemption bound; every execution runs to completion and is checked against the
sequential results.
"""

from __future__ import annotations

import gc
import os
import sys
import threading
import time

HANG_SECONDS = 120.0


class Deadlock(Exception):
    pass


class Hang(Exception):
    pass


class Divergence(Exception):
    pass


class SchedLock:
    """Drop-in for threading.Lock whose blocking is visible to the scheduler."""

    def __init__(self, reentrant=False):
        self.owner = None
        self.sched = None
        self.reentrant = reentrant
        self.depth = 0

    def acquire(self, blocking=True, timeout=-1):
        s = self.sched
        if s is None or s.current_tid() is None:
            self.owner = "outside"
            return True
        tid = s.current_tid()
        if self.reentrant and self.owner == tid:
            self.depth += 1
            return True
        s.point(tid, ("lock", "acquire"))
        while self.owner is not None:
            s.block(tid, self)
        self.owner = tid
        self.depth = 1
        return True

    def release(self):
        s = self.sched
        if self.reentrant and self.depth > 1:
            self.depth -= 1
            return
        self.depth = 0
        self.owner = None
        if s is not None and s.current_tid() is not None:
            s.unblock(self)
            s.point(s.current_tid(), ("lock", "release"))

    def __enter__(self):
        self.acquire()
        return self

    def __exit__(self, *a):
        self.release()
        return False

    def locked(self):
        return self.owner is not None


class _Abort(BaseException):
    pass


class LockRegistry:
    """All scheduler-aware locks of the code under test (module-level ones and ones it creates later)."""

    def __init__(self):
        self.locks = []
        self.current = None

    def make(self, reentrant=False):
        l = SchedLock(reentrant)
        l.sched = self.current
        self.locks.append(l)
        return l

    def bind(self, execution):
        self.current = execution
        for l in self.locks:
            l.sched = execution
            l.owner = None


def reload_with_sched_locks(module, registry):
    """Re-import `module` with threading.Lock replaced by scheduler-aware locks, so that every lock
    the module creates - now or later through a captured factory - is visible to the scheduler.
    A real lock would deadlock a cooperative scheduler (a parked thread may hold it)."""
    import importlib

    real = threading.Lock
    threading.Lock = registry.make
    try:
        importlib.reload(module)
    finally:
        threading.Lock = real
    return module


def swap_module_locks(registry, prefix="tensora"):
    """Replace, in place, every module-level threading.Lock / RLock object of the loaded modules under `prefix` by a
    scheduler-aware lock (code that says `with some_lock:` looks the global up at run time).  A change that adds a
    lock to the library must not hang the cooperative scheduler - and contention on it becomes a scheduling point."""
    lock_types = (type(threading.Lock()), type(threading.RLock()))
    swapped = []
    for name, mod in list(sys.modules.items()):
        if mod is None or not (name == prefix or name.startswith(prefix + ".")):
            continue
        for attr, val in list(vars(mod).items()):
            if isinstance(val, lock_types):
                setattr(mod, attr, registry.make(reentrant=isinstance(val, lock_types[1])))
                swapped.append(f"{name}.{attr}")
    return swapped


class Execution:
    """One run of the scenario under a given choice prefix.

    The scheduling decision is taken by whichever thread holds the baton when it reaches a point;
    a hand-off (release the chosen thread's semaphore, park on one's own) only happens when the
    decision is to switch, so the default schedule costs no context switches."""

    def __init__(self, bodies, prefix, visible, lock=None):
        self.bodies = bodies
        self.n = len(bodies)
        self.prefix = list(prefix)
        self.visible = visible
        self.sems = [threading.Semaphore(0) for _ in bodies]
        self.main = threading.Semaphore(0)
        self.done = [False] * self.n
        self.blocked = [None] * self.n
        self.results = [None] * self.n
        self.where = [None] * self.n
        self.points = []  # per decision: (number enabled, running thread still enabled, chosen index)
        self.choices = []
        self.tids = {}
        self.lock = lock
        self.error = None
        self.step = 0
        self._vis_cache = {}

    def current_tid(self):
        return self.tids.get(threading.get_ident())

    def _decide(self, cur):
        """Pick the next thread to run; cur is the thread holding the baton."""
        enabled = [i for i in range(self.n) if not self.done[i] and self.blocked[i] is None]
        if not enabled:
            if all(self.done):
                return None
            self.error = Deadlock(f"no enabled thread; blocked on a lock: "
                                  f"{[i for i in range(self.n) if self.blocked[i] is not None]}")
            return None
        running_enabled = cur in enabled
        order = ([cur] if running_enabled else []) + [i for i in enabled if i != cur]
        if self.step < len(self.prefix):
            c = self.prefix[self.step]
            if c >= len(order):
                self.error = Divergence(f"step {self.step}: choice {c} but only {len(order)} enabled threads")
                return None
        else:
            c = 0
        self.points.append((len(order), running_enabled, c))
        self.choices.append(c)
        self.step += 1
        return order[c]

    def point(self, tid, where):
        self.where[tid] = where
        pick = self._decide(tid)
        if pick is None:
            self.main.release()
            if self.error is not None:
                raise _Abort()
            return
        if pick != tid:
            self.sems[pick].release()
            self.sems[tid].acquire()

    def block(self, tid, lock):
        self.blocked[tid] = lock
        self.point(tid, ("lock", "blocked"))

    def unblock(self, lock):
        for t in range(self.n):
            if self.blocked[t] is lock:
                self.blocked[t] = None

    def _is_visible(self, filename):
        v = self._vis_cache.get(filename)
        if v is None:
            v = any(s in filename for s in self.visible)
            self._vis_cache[filename] = v
        return v

    def _tracer(self, tid):
        point = self.point
        base = os.path.basename

        def local(frame, event, arg):
            if event == "line":
                point(tid, (base(frame.f_code.co_filename), frame.f_lineno))
            return local

        def glob(frame, event, arg):
            if self._is_visible(frame.f_code.co_filename):
                return local
            return None

        return glob

    def _thread_main(self, tid):
        self.tids[threading.get_ident()] = tid
        self.sems[tid].acquire()
        sys.settrace(self._tracer(tid))
        try:
            self.results[tid] = ("ok", self.bodies[tid]())
        except _Abort:
            sys.settrace(None)
            return
        except BaseException as e:  # noqa: BLE001
            sys.settrace(None)
            self.results[tid] = ("exception", f"{type(e).__name__}: {e}")
        sys.settrace(None)
        self.done[tid] = True
        pick = self._decide(tid)
        if pick is None:
            self.main.release()
        else:
            self.sems[pick].release()

    def run(self):
        threads = [threading.Thread(target=self._thread_main, args=(i,), daemon=True) for i in range(self.n)]
        for t in threads:
            t.start()
        first = self._decide(0)
        if first is None:
            raise self.error or Deadlock("nothing to run")
        self.sems[first].release()
        if not self.main.acquire(timeout=HANG_SECONDS):
            raise Hang(f"execution did not finish within {HANG_SECONDS}s (threads last seen at {self.where})")
        if self.error is not None:
            raise self.error
        for t in threads:
            t.join(timeout=10)
        return self.results


def preemptions(points, choices, upto):
    n = 0
    for (k, running_enabled, _c), c in zip(points[:upto], choices[:upto], strict=False):
        if c != 0 and running_enabled:
            n += 1
    return n


class Explorer:
    def __init__(self, scenario, visible, bound, lock=None, max_executions=None):
        self.scenario = scenario  # object with .setup() -> bodies, .check(results) -> list of problems
        self.visible = visible
        self.bound = bound
        self.lock = lock
        self.executions = 0
        self.total_points = 0
        self.problems = []
        self.outcomes = set()
        self.max_executions = max_executions
        self.capped = False
        self.trace_path = None
        self.preempted_executions = 0

    def execute(self, prefix):
        gc.collect()
        gc.disable()
        try:
            bodies = self.scenario.setup()
            ex = Execution(bodies, prefix, self.visible, self.lock)
            if self.lock is not None:
                self.lock.bind(ex)
            try:
                results = ex.run()
            finally:
                if self.lock is not None:
                    self.lock.bind(None)
        finally:
            gc.enable()
        self.executions += 1
        self.total_points += len(ex.points)
        return ex, results

    def run_one(self, prefix):
        if self.trace_path:
            # so that the schedule can be named even if this execution kills the process
            with open(self.trace_path, "w") as f:
                f.write(repr(list(prefix)))
        try:
            ex, results = self.execute(prefix)
        except (Deadlock, Hang, Divergence) as e:
            self.problems.append((type(e).__name__.lower(), str(e), list(prefix)))
            return None
        probs = self.scenario.check(results)
        self.outcomes.add(repr(results))
        for p in probs:
            self.problems.append(("wrong-result", p, list(ex.choices)))
        if preemptions(ex.points, ex.choices, len(ex.points)) > 0:
            self.preempted_executions += 1
        return ex

    def explore(self, first_positions=None, stride=None):
        """Depth-first enumeration of all schedules within the preemption bound.

        first_positions: if given, only schedules whose first deviation from the default schedule is
        at a position p with p % stride[1] == stride[0] are explored here (work partitioning)."""
        root = self.run_one([])
        if root is None:
            return
        stack = []

        def children(ex, start):
            for i in range(len(ex.points) - 1, start - 1, -1):
                k, running_enabled, _c = ex.points[i]
                if k <= 1:
                    continue
                cost = preemptions(ex.points, ex.choices, i) + (1 if running_enabled else 0)
                if cost > self.bound:
                    continue
                for alt in range(1, k):
                    yield ex.choices[:i] + [alt]

        for pre in children(root, 0):
            pos = len(pre) - 1
            if stride is not None and pos % stride[1] != stride[0]:
                continue
            stack.append(pre)
        while stack:
            if self.problems and len(self.problems) > 20:
                break
            if self.max_executions is not None and self.executions >= self.max_executions:
                self.capped = True
                break
            pre = stack.pop()
            ex = self.run_one(pre)
            if ex is None:
                if any(p[0] in ("hang", "deadlock") for p in self.problems):
                    break  # parked threads are leaked; this process can no longer be trusted
                continue
            for child in children(ex, len(pre)):
                stack.append(child)
