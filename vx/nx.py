"""NX: native conformance harness.

The same kernels the kernel explorer runs on the abstract machine are printed with the real
ir_to_c / ir_to_llvm, compiled three ways --
    gcc   -std=c99 -O1 -fsanitize=address,undefined   (emitted C + published headers only)
    clang-14 -x ir -O1 -fsanitize=address             (emitted LLVM text)
    llvmlite MCJIT through tensora.compile._compile_llvm.compile_module (the evaluate path)
-- and driven through identical call scripts (evaluate; assemble, compute, compute with re-valued
inputs) on concrete inputs.  AM(concrete) = gcc = clang = JIT is demanded bit for bit for every
return value and every array over the extent the structure describes.
"""

from __future__ import annotations

import os
import re
import shutil
import struct
import subprocess
import time
from collections import Counter
from dataclasses import replace

from tensora.codegen import ir_to_c, ir_to_llvm
from tensora.compile._compile_cffi import taco_define_header
from tensora.compile._cffi_ownership import taco_type_header
from tensora.format import Mode
from tensora.ir import ast as ir
from tensora.problem import Problem

from . import kx, space
from .am import UNINIT, Fault, Machine
from .common import cap_findings, BUILD_DIR, VERIF, jsonable
from .tensors import am_freeze_structure, am_input, am_output, parse_fmt

OPT = os.environ.get("VERIF_NX_OPT", "-O1")
KIND_IDS = {"evaluate": 0, "assemble": 1, "compute": 2}
GCC_FLAGS = ["-std=c99", OPT, "-g0", "-fsanitize=address,undefined", "-fno-sanitize-recover=all",
             "-fno-omit-frame-pointer", "-w"]
CLANG_FLAGS = [OPT, "-g0", "-fsanitize=address", "-fno-omit-frame-pointer", "-w"]
SAN_ENV = {"ASAN_OPTIONS": "detect_leaks=0:abort_on_error=0:allocator_may_return_null=1",
           "UBSAN_OPTIONS": "halt_on_error=1:print_stacktrace=0"}


def bits(x: float) -> str:
    return struct.pack(">d", float(x)).hex()


def concrete_values(ti: int, n: int, gen: int, rounding=False):
    if rounding:
        base = [0.1, 0.2, 0.3, 0.7, 1.1, 1.3, 1.7, 1.9]
        return [base[(q + 3 * ti + 5 * gen) % len(base)] * (1 + (q // len(base))) for q in range(n)]
    return [(q + 1) * 0.25 + ti + 8.0 * gen for q in range(n)]


# ----------------------------------------------------------------------------- scripts


def make_script(with_ac=True):
    s = [("call", "evaluate"), ("dump", 1), ("freeout",)]
    if with_ac:
        s += [("reset_output",), ("call", "assemble"), ("dump", 0), ("call", "compute"), ("dump", 1),
              ("revalue", 1), ("call", "compute"), ("dump", 1), ("freeout",)]
    return s


def am_dump(ts, fmt, dims, with_vals):
    """Render the output exactly like driver.c's DUMP; returns (lines, problem)."""
    lines = []
    npos = 1
    for l, mode in enumerate(fmt.modes):
        if mode == Mode.dense:
            npos *= dims[fmt.ordering[l]]
            continue
        lv = ts.indices.block.cells[l]
        posp, crdp = lv.block.cells
        if posp.block is None:
            return lines + [f"POS {l} NULL"], None
        pb = posp.block
        if pb.freed or len(pb.cells) < npos + 1:
            return lines, f"level {l} pos freed or too short"
        pos = pb.cells[0 : npos + 1]
        if any(x is UNINIT for x in pos):
            return lines, f"level {l} pos uninitialised"
        lines.append(f"POS {l} {npos + 1} " + " ".join(str(x) for x in pos))
        n = pos[npos]
        if n > 0:
            if crdp.block is None:
                return lines + [f"CRD {l} {n} NULL"], None
            cb = crdp.block
            if cb.freed or len(cb.cells) < n:
                return lines, f"level {l} crd freed or too short"
            crd = cb.cells[0:n]
            if any(x is UNINIT for x in crd):
                return lines, f"level {l} crd uninitialised"
        else:
            crd = []
        lines.append((f"CRD {l} {n} " + " ".join(str(x) for x in crd)).rstrip() if crd else f"CRD {l} {n}")
        npos = n
    if with_vals:
        if npos > 0:
            if ts.vals.block is None:
                return lines + [f"VALS {npos} NULL"], None
            vb = ts.vals.block
            if vb.freed or len(vb.cells) < npos:
                return lines, "vals freed or too short"
            vals = vb.cells[0:npos]
            if any(x is UNINIT for x in vals):
                return lines, "vals uninitialised"
        else:
            vals = []
        lines.append((f"VALS {npos} " + " ".join(bits(v) for v in vals)) if vals else f"VALS {npos}")
    return lines, None


def am_run_script(kc, DIM, joint, script, rounding=False):
    """Expected driver output for one case, from the abstract machine in the concrete domain."""
    names = [p.name.name for p in kc.fns["evaluate"].parameters]
    ops = [n for n in names if n != kc.out]
    odims = tuple(DIM[i] for i in kc.prog[1])
    m = Machine(generic=False, budget=kx.step_budget(DIM, joint))
    gen = 0
    vals = {n: concrete_values(ops.index(n), len(joint[n].paths), gen, rounding) for n in ops}
    ts_out = None
    out = []
    frozen = False
    for step in script:
        if step[0] == "call":
            fn = kc.fns[step[1]]
            args, ts_out, _ = kc.build_args(m, fn, DIM, joint, vals, out_ts=ts_out)
            m.steps = 0
            rv = m.call(fn, args)
            out.append(f"RET {rv}")
            if step[1] == "assemble" and not frozen:
                am_freeze_structure(ts_out, kc.ofmt)
                frozen = True
        elif step[0] == "dump":
            lines, problem = am_dump(ts_out, kc.ofmt, odims, step[1])
            if problem:
                raise Fault("am-dump", problem)
            out.extend(lines)
        elif step[0] == "freeout":
            out.append("FREED")
        elif step[0] == "reset_output":
            ts_out = None
            frozen = False
        elif step[0] == "revalue":
            gen = step[1]
            vals = {n: concrete_values(ops.index(n), len(joint[n].paths), gen, rounding) for n in ops}
    return out, names


def driver_text(label, kid, kc, DIM, joint, script, names, rounding=False):
    """The case in driver.c's protocol."""
    ops = [n for n in names if n != kc.out]
    odims = tuple(DIM[i] for i in kc.prog[1])
    slot = {n: i for i, n in enumerate(names)}
    L = [f"BEGIN {label}"]

    def tensor_line(n, is_out):
        fmt = kc.fmts[n]
        dims = odims if is_out else joint[n].dims
        return (f"TENSOR {slot[n]} {len(dims)} {1 if is_out else 0} " + " ".join(map(str, dims)) + " "
                + " ".join(map(str, fmt.ordering)) + " "
                + " ".join("1" if mo == Mode.compressed else "0" for mo in fmt.modes)).rstrip()

    def vals_line(n, gen):
        vs = concrete_values(ops.index(n), len(joint[n].paths), gen, rounding)
        return (f"VALS {slot[n]} {len(vs)} " + " ".join(bits(v) for v in vs)).rstrip()

    L.append(tensor_line(kc.out, True))
    for n in ops:
        L.append(tensor_line(n, False))
        for l, lv in enumerate(joint[n].levels):
            if lv is not None:
                L.append((f"LEVEL {slot[n]} {l} {len(lv[0])} " + " ".join(map(str, lv[0])) + f" {len(lv[1])} "
                          + " ".join(map(str, lv[1]))).rstrip())
        L.append(vals_line(n, 0))
    for step in script:
        if step[0] == "call":
            L.append(f"CALL {kid} {KIND_IDS[step[1]]} {len(names)} " + " ".join(str(slot[n]) for n in names))
        elif step[0] == "dump":
            L.append(f"DUMP {slot[kc.out]} {step[1]}")
        elif step[0] == "freeout":
            L.append(f"FREEOUT {slot[kc.out]}")
        elif step[0] == "reset_output":
            L.append(tensor_line(kc.out, True))
        elif step[0] == "revalue":
            for n in ops:
                L.append(vals_line(n, step[1]))
    L.append("END")
    return "\n".join(L) + "\n"


# --------------------------------------------------------------------------- building


def rename_module(modules):
    """[(kid, ir.Module)] -> one ir.Module with functions renamed <kind>_<kid>."""
    fns = []
    for kid, mod in modules:
        for fn in mod.definitions:
            fns.append(replace(fn, name=ir.Variable(f"{fn.name.name}_{kid}")))
    return ir.Module(fns)


C_PRELUDE = "#include <stdint.h>\n#include <stdlib.h>\n" + taco_define_header + taco_type_header + "\n"


def table_c(entries):
    L = ["#include <stdint.h>", "struct verif_entry { int id; int kind; int nparams; void *fn; };"]
    for kid, kind, n in entries:
        L.append(f"extern int32_t {kind}_{kid}();")
    L.append("struct verif_entry verif_table[] = {")
    for kid, kind, n in entries:
        L.append(f"  {{{kid}, {KIND_IDS[kind]}, {n}, (void*){kind}_{kid}}},")
    L.append("  {-1, -1, 0, 0}};")
    L.append(f"int verif_table_len = {len(entries)};")
    return "\n".join(L) + "\n"


def add_sanitize_attribute(ll: str) -> str:
    """ASan only instruments functions carrying sanitize_address; clang adds it for C, not for IR."""
    return re.sub(r'^(define [^\n]*\))\s*$', r'\1 sanitize_address', ll, flags=re.M)


def run_exe(exe, text, timeout=300):
    env = dict(os.environ)
    env.update(SAN_ENV)
    try:
        p = subprocess.run([exe], input=text, capture_output=True, text=True, timeout=timeout, env=env)
        return p.returncode, p.stdout, p.stderr
    except subprocess.TimeoutExpired as e:
        return -999, (e.stdout or b"").decode() if isinstance(e.stdout, bytes) else (e.stdout or ""), "TIMEOUT"


def split_cases(stdout):
    """label -> list of lines (between BEGIN and END); incomplete last case flagged."""
    cases = {}
    cur = None
    label = None
    for line in stdout.splitlines():
        if line.startswith("BEGIN "):
            label = line[6:]
            cur = []
        elif line == "END":
            if label is not None:
                cases[label] = cur
            label = None
            cur = None
        elif cur is not None:
            cur.append(line)
    return cases, label


# ------------------------------------------------------------------------------- JIT


def jit_run(merged, cases, kernels, out_path):
    """Runs every case through the real compile_module (MCJIT) path; writes driver-format output."""
    from tensora.compile._cffi_ownership import tensor_cdefs, tensor_lib
    from tensora.compile._compile_llvm import compile_module

    ffi = tensor_cdefs
    engine = compile_module(merged)
    with open(out_path, "w") as f:
        for label, kid, DIM, joint, script, names, rounding in cases:
            kc = kernels[kid]
            ops = [n for n in names if n != kc.out]
            odims = tuple(DIM[i] for i in kc.prog[1])
            f.write(f"BEGIN {label}\n")
            f.flush()
            keep = []

            def new_tensor(n, is_out):
                fmt = kc.fmts[n]
                dims = odims if is_out else joint[n].dims
                t = ffi.new("taco_tensor_t*")
                t.order = len(dims)
                d = ffi.new("int32_t[]", list(dims) or [0])
                o = ffi.new("int32_t[]", list(fmt.ordering) or [0])
                mt = ffi.new("taco_mode_t[]", [1 if mo == Mode.compressed else 0 for mo in fmt.modes] or [0])
                lv = []
                for mo in fmt.modes:
                    if mo == Mode.compressed:
                        lv.append(ffi.new("int32_t*[]", [ffi.NULL, ffi.NULL]))
                    else:
                        lv.append(ffi.new("int32_t*[]", 0))
                ind = ffi.new("int32_t**[]", lv or [ffi.NULL])
                t.dimensions, t.mode_ordering, t.mode_types = d, o, mt
                t.indices = ffi.cast("int32_t***", ind)
                t.vals = ffi.NULL
                keep.extend([t, d, o, mt, lv, ind])
                return t, lv

            def set_vals(t, n, gen):
                vs = concrete_values(ops.index(n), len(joint[n].paths), gen, rounding)
                arr = ffi.new("double[]", vs or [0.0])
                keep.append(arr)
                t.vals = ffi.cast("double*", arr)

            tensors = {}
            t_out, lv_out = new_tensor(kc.out, True)
            tensors[kc.out] = t_out
            for n in ops:
                t, lv = new_tensor(n, False)
                for l, level in enumerate(joint[n].levels):
                    if level is not None:
                        pa = ffi.new("int32_t[]", list(level[0]))
                        ca = ffi.new("int32_t[]", list(level[1]) or [0])
                        keep.extend([pa, ca])
                        lv[l][0] = pa
                        lv[l][1] = ca
                set_vals(t, n, 0)
                tensors[n] = t
            for step in script:
                if step[0] == "call":
                    addr = engine.get_function_address(f"{step[1]}_{kid}")
                    fn = ffi.cast(f"int32_t (*)({', '.join(['void *'] * len(names))})", addr)
                    rv = fn(*[tensors[n] for n in names])
                    f.write(f"RET {rv}\n")
                elif step[0] == "dump":
                    fmt = kc.fmts[kc.out]
                    t = tensors[kc.out]
                    npos = 1
                    stop = False
                    for l, mo in enumerate(fmt.modes):
                        if mo == Mode.dense:
                            npos *= odims[fmt.ordering[l]]
                            continue
                        pos = lv_out[l][0]
                        crd = lv_out[l][1]
                        if pos == ffi.NULL:
                            f.write(f"POS {l} NULL\n")
                            stop = True
                            break
                        pl = [pos[i] for i in range(npos + 1)]
                        f.write(f"POS {l} {npos + 1} " + " ".join(map(str, pl)) + "\n")
                        nn = pl[npos]
                        if nn > 0 and crd == ffi.NULL:
                            f.write(f"CRD {l} {nn} NULL\n")
                            stop = True
                            break
                        cl = [crd[i] for i in range(nn)]
                        f.write((f"CRD {l} {nn} " + " ".join(map(str, cl))).rstrip() + "\n")
                        npos = nn
                    if step[1] and not stop:
                        if npos > 0 and t.vals == ffi.NULL:
                            f.write(f"VALS {npos} NULL\n")
                        else:
                            vl = [t.vals[i] for i in range(npos)]
                            f.write((f"VALS {npos} " + " ".join(bits(v) for v in vl)).rstrip() + "\n")
                elif step[0] == "freeout":
                    fmt = kc.fmts[kc.out]
                    t = tensors[kc.out]
                    for l, mo in enumerate(fmt.modes):
                        if mo == Mode.compressed:
                            tensor_lib.free(lv_out[l][0])
                            tensor_lib.free(lv_out[l][1])
                            lv_out[l][0] = ffi.NULL
                            lv_out[l][1] = ffi.NULL
                    tensor_lib.free(t.vals)
                    t.vals = ffi.NULL
                    f.write("FREED\n")
                elif step[0] == "reset_output":
                    t_out, lv_out = new_tensor(kc.out, True)
                    tensors[kc.out] = t_out
                elif step[0] == "revalue":
                    for n in ops:
                        set_vals(tensors[n], n, step[1])
            f.write("END\n")
            f.flush()


def jit_in_child(merged, cases, kernels, out_path):
    """Fork so that a crash inside JIT-compiled code cannot take the worker down."""
    pid = os.fork()
    if pid == 0:
        code = 0
        try:
            jit_run(merged, cases, kernels, out_path)
        except BaseException as e:  # noqa: BLE001
            try:
                with open(out_path, "a") as f:
                    f.write(f"\nJIT-EXCEPTION {type(e).__name__}: {e}\n")
            finally:
                code = 7
        os._exit(code)
    _, status = os.waitpid(pid, 0)
    return status


# ----------------------------------------------------------------------- work unit


def right_nested(e) -> bool:
    """Does the IR contain a + (b + c) or a * (b * c) in a position where the C printer prints the operands
    in a row (the shapes it re-associates)?  The accumulation t = t + (x + y) does not count: it is printed as
    the compound assignment t += x + y, which C evaluates in the IR's order."""
    if isinstance(e, ir.Assignment) and isinstance(e.value, (ir.Add, ir.Subtract, ir.Multiply)) and e.value.left == e.target:
        return right_nested(e.value.right) or right_nested(e.target)
    if isinstance(e, (ir.Add, ir.Multiply)):
        if type(e.right) is type(e):
            return True
    for f in getattr(e, "__dataclass_fields__", {}):
        v = getattr(e, f)
        if isinstance(v, (ir.Statement, ir.FunctionDefinition)):
            if right_nested(v):
                return True
        elif isinstance(v, list):
            if any(right_nested(x) for x in v if isinstance(x, (ir.Statement, ir.FunctionDefinition))):
                return True
    return False


def work(unit):
    """unit: {"kernels": [(prog_json, {name: fmtstr})...], "opts": {...}, "tag": str}"""
    t0 = time.time()
    opts = unit["opts"]
    if "capacity" in unit:
        os.environ["TENSORA_VERIF_INITIAL_CAPACITY"] = unit["capacity"]
    stats = Counter()
    findings = []
    samples = []
    rounding = bool(opts.get("rounding"))
    with_ac = opts.get("with_ac", True)
    cap = opts.get("cap", 24)
    workdir = os.path.join(BUILD_DIR, "nx", f"{os.getpid()}_{unit['tag']}")
    shutil.rmtree(workdir, ignore_errors=True)
    os.makedirs(workdir)
    kernels = {}
    modules = []
    for kid, (pj, fj) in enumerate(unit["kernels"]):
        prog = space.prog_from_json(pj)
        names = list(fj)
        fmts = {n: parse_fmt(s) for n, s in fj.items()}
        status, module = kx.generate(Problem(space.to_assignment(prog), fmts), kx.KINDS3)
        if status != "ok":
            stats[f"not generated ({status})"] += 1
            continue
        kernels[kid] = kx.KernelCase(prog, names, fmts, module)
        modules.append((kid, module))
    stats["kernels"] += len(kernels)
    if not kernels:
        return {"stats": dict(stats), "findings": [], "samples": [], "cases": 0, "validated": 0, "steps": 0,
                "wall": time.time() - t0}
    merged = rename_module(modules)
    tm = Counter()
    tmark = [time.time()]

    def lap(name):
        now = time.time()
        tm[name] += now - tmark[0]
        tmark[0] = now

    lap("generate")
    script = make_script(with_ac)
    cases = []
    expected = {}
    texts = []
    steps = 0
    for kid, kc in kernels.items():
        dimvecs = space.dim_vectors(kc.prog, kc.fmts, cap, deviations=opts.get("deviations", True))
        ci = 0
        for DIM, _tag in dimvecs:
            for joint in space.joint_structures(kc.prog, kc.fmts, DIM):
                label = f"k{kid}c{ci}"
                ci += 1
                try:
                    exp, names = am_run_script(kc, DIM, joint, script, rounding)
                except Fault as f:
                    stats[f"AM fault {f.kind}"] += 1
                    findings.append(kx.finding(["C05"], "fault", f"abstract machine (concrete): {f}",
                                               kx.case_json(kc, DIM, joint), fault=f.kind, kernel="script"))
                    continue
                expected[label] = (exp, kid, DIM, joint)
                cases.append((label, kid, DIM, joint, script, names, rounding))
                texts.append(driver_text(label, kid, kc, DIM, joint, script, names, rounding))
    stats["cases"] += len(cases)
    lap("am")
    text = "".join(texts)
    entries = [(kid, fn.name.name, len(fn.parameters)) for kid, mod in modules for fn in mod.definitions]
    # --- print with the real printers
    results = {}
    try:
        c_text = ir_to_c(merged)
        with open(os.path.join(workdir, "kernels.c"), "w") as f:
            f.write(C_PRELUDE + c_text + "\n")
    except Exception as e:  # noqa: BLE001
        findings.append(kx.finding(["C06", "C08"], "printer-crash", f"ir_to_c raised {type(e).__name__}: {e}",
                                   {"kernels": unit["kernels"][:3]}, backend="c", exception=type(e).__name__))
        c_text = None
    try:
        ll_text = str(ir_to_llvm(merged))
        with open(os.path.join(workdir, "kernels.ll"), "w") as f:
            f.write(add_sanitize_attribute(ll_text))
    except Exception as e:  # noqa: BLE001
        findings.append(kx.finding(["C06", "C08"], "printer-crash", f"ir_to_llvm raised {type(e).__name__}: {e}",
                                   {"kernels": unit["kernels"][:3]}, backend="llvm", exception=type(e).__name__))
        ll_text = None
    with open(os.path.join(workdir, "table.c"), "w") as f:
        f.write(table_c(entries))
    lap("print")
    driver = os.path.join(VERIF, "native", "driver.c")
    if c_text is not None:
        exe = os.path.join(workdir, "exe_gcc")
        p = subprocess.run(["gcc", *GCC_FLAGS, "-o", exe, driver, os.path.join(workdir, "table.c"),
                            os.path.join(workdir, "kernels.c")], capture_output=True, text=True)
        if p.returncode != 0:
            findings.append(kx.finding(["C06", "C08"], "toolchain-reject", f"gcc rejects the emitted C: "
                                       f"{p.stderr[:600]}", {"kernels": unit["kernels"][:3]}, backend="gcc"))
        else:
            lap("gcc-compile")
            results["gcc"] = run_exe(exe, text)
            lap("gcc-run")
    if ll_text is not None:
        exe = os.path.join(workdir, "exe_clang")
        p = subprocess.run(["clang-14", *CLANG_FLAGS, "-o", exe, driver, os.path.join(workdir, "table.c"),
                            "-x", "ir", os.path.join(workdir, "kernels.ll")], capture_output=True, text=True)
        if p.returncode != 0:
            findings.append(kx.finding(["C06", "C08"], "toolchain-reject", f"clang-14 rejects the emitted LLVM: "
                                       f"{p.stderr[:600]}", {"kernels": unit["kernels"][:3]}, backend="clang"))
        else:
            lap("clang-compile")
            results["clang"] = run_exe(exe, text)
            lap("clang-run")
        jit_out = os.path.join(workdir, "jit.out")
        status = jit_in_child(merged, cases, kernels, jit_out)
        try:
            with open(jit_out) as f:
                jtxt = f.read()
        except OSError:
            jtxt = ""
        results["jit"] = (status, jtxt, "")
        lap("jit")
    # --- compare
    validated = 0
    for backend, (rc, stdout, stderr) in results.items():
        got, unfinished = split_cases(stdout)
        if "JIT-EXCEPTION" in stdout:
            msg = stdout[stdout.index("JIT-EXCEPTION"):][:400]
            findings.append(kx.finding(["C06", "C08"], "jit-exception", f"MCJIT path raised: {msg}",
                                       {"kernels": unit["kernels"][:3]}, backend=backend))
        if unfinished is not None or rc not in (0,):
            lab = unfinished
            info = expected.get(lab)
            cj = kx.case_json(kernels[info[1]], info[2], info[3]) if info else {"label": lab}
            san = (stderr or "")[:1500]
            kind = "sanitizer" if ("Sanitizer" in san or "runtime error" in san) else "native-crash"
            m = re.search(r"AddressSanitizer: ([a-z\-]+)", san)
            what = m.group(1) if m else ("ubsan" if "runtime error" in san else f"exit status {rc}")
            if lab is not None or rc != 0:
                findings.append(kx.finding(["C05", "C06"], kind, f"{backend}: {what} while running case {lab}: "
                                           f"{san[:300]}", {**cj, "stderr": san}, backend=backend, error=what))
        for label, (exp, kid, DIM, joint) in expected.items():
            if label not in got:
                continue
            if got[label] != exp:
                kc = kernels[kid]
                diff = next(((a, b) for a, b in zip(got[label], exp) if a != b), (got[label][-1:], exp[-1:]))
                stats[f"{backend} mismatch"] += 1
                sig = {"backend": backend}
                if rounding:
                    sig["right_nested"] = any(right_nested(fn) for fn in kc.module.definitions)
                kind = "rounding-mismatch" if rounding else "native-mismatch"
                if any(l.startswith("INPUT-MODIFIED") for l in got[label]):
                    kind = "input-modified"
                findings.append(kx.finding(["C06"] + (["C05"] if kind == "input-modified" else []), kind,
                                           f"{backend} disagrees with the abstract machine: got {diff[0]!r}, "
                                           f"expected {diff[1]!r}",
                                           kx.case_json(kc, DIM, joint, {"got": got[label], "expected": exp}),
                                           **sig))
            else:
                validated += 1
    if cases and not findings and len(samples) < 1:
        label, kid, DIM, joint, *_ = cases[len(cases) // 2]
        samples.append({**kx.case_json(kernels[kid], DIM, joint), "script": jsonable(script),
                        "driver_output": expected[label][0],
                        "backends_agreeing": sorted(results)})
    lap("compare")
    for k, v in tm.items():
        stats[f"seconds {k}"] = round(v, 2)
    if not opts.get("keep"):
        shutil.rmtree(workdir, ignore_errors=True)
    return {"stats": dict(stats), "findings": cap_findings(findings), "samples": samples, "cases": len(cases),
            "validated": validated, "steps": steps, "wall": time.time() - t0,
            "backends": sorted(results)}
