"""Entry point: python -m vx.main <ID> [--tier quick|thorough] [--replay <file>]"""

from __future__ import annotations

import argparse
import importlib
import sys

from .common import assert_repo_tensora, tier_and_seed


def main(argv=None):
    ap = argparse.ArgumentParser()
    ap.add_argument("property")
    ap.add_argument("--tier", default=None)
    ap.add_argument("--replay", default=None)
    ns = ap.parse_args(argv)
    assert_repo_tensora()
    tier, seed = tier_and_seed(ns.tier)
    pid = ns.property.upper()
    try:
        mod = importlib.import_module(f"vx.checks.{pid.lower()}")
    except ModuleNotFoundError as e:
        if e.name != f"vx.checks.{pid.lower()}":
            raise
        print(f"unknown property {pid}", file=sys.stderr)
        return 2
    if ns.replay:
        return mod.replay(ns.replay)
    return mod.run(tier, seed)


if __name__ == "__main__":
    try:
        code = main()
    except SystemExit:
        raise
    except BaseException:  # noqa: BLE001 - an error of the machinery is not a verdict about the property
        import traceback

        traceback.print_exc()
        print("CHECK-ERROR: the verification machinery itself failed (exit status 3); this is not a verdict",
              flush=True)
        sys.exit(3)
    sys.exit(code)
