"""Helpers around the real runtime objects (Tensor, TensorMethod): raw decoding, building inputs."""

from __future__ import annotations

from tensora.format import Mode

from .tensors import Structure


def raw_image(t):
    """Read a Tensor through its raw C arrays only (no items()/to_dok()).

    Returns (dims, modes, ordering, levels, vals) with levels[l] = None | (pos list, crd list).
    """
    from tensora.compile._cffi_ownership import tensor_cdefs as ffi

    ct = t.cffi_tensor
    order = ct.order
    dims = tuple(ct.dimensions[i] for i in range(order))
    ordering = tuple(ct.mode_ordering[i] for i in range(order))
    modes = tuple(int(ct.mode_types[i]) for i in range(order))
    ind = ffi.cast("int32_t***", ct.indices)
    levels = []
    npos = 1
    for l in range(order):
        if modes[l] == 0:
            npos *= dims[ordering[l]]
            levels.append(None)
        else:
            pos = [ind[l][0][i] for i in range(npos + 1)]
            n = pos[npos]
            crd = [ind[l][1][i] for i in range(n)]
            levels.append((pos, crd))
            npos = n
    vals_p = ffi.cast("double*", ct.vals)
    vals = [vals_p[i] for i in range(npos)]
    return dims, modes, ordering, levels, vals


def raw_decode(t):
    """(dims, fmt string, stored dict coord -> value incl. explicit zeros, problems)."""
    dims, modes, ordering, levels, vals = raw_image(t)
    order = len(dims)
    problems = []
    lvl_dims = [dims[o] for o in ordering]
    prefixes = [((), 0)]
    for l in range(order):
        if levels[l] is None:
            d = lvl_dims[l]
            prefixes = [(p + (x,), q * d + x) for p, q in prefixes for x in range(d)]
        else:
            pos, crd = levels[l]
            if pos[0] != 0:
                problems.append(f"level {l} pos[0] = {pos[0]}")
            if any(a > b for a, b in zip(pos, pos[1:])):
                problems.append(f"level {l} pos decreases: {pos}")
                return dims, None, {}, problems
            newp = []
            for p, q in prefixes:
                seg = crd[pos[q] : pos[q + 1]]
                if any(a >= b for a, b in zip(seg, seg[1:])):
                    problems.append(f"level {l} segment not strictly increasing: {seg}")
                if any(not (0 <= x < lvl_dims[l]) for x in seg):
                    problems.append(f"level {l} coordinate outside dimension: {seg}")
                newp.extend((p + (x,), pos[q] + k) for k, x in enumerate(seg))
            prefixes = newp
    stored = {}
    for p, q in prefixes:
        c = [0] * order
        for lev, d in enumerate(ordering):
            c[d] = p[lev]
        stored[tuple(c)] = vals[q]
    fmt = "".join(("s" if m else "d") + str(o) for m, o in zip(modes, ordering, strict=True))
    return dims, fmt, stored, problems


def tensor_from_structure(st: Structure, values):
    """A real Tensor holding exactly this structure (stored-but-empty segments included)."""
    from tensora import Tensor
    from tensora.compile import taco_structure_to_cffi

    indices = [[] if lv is None else [list(lv[0]), list(lv[1])] for lv in st.levels]
    ct = taco_structure_to_cffi(
        indices,
        [float(v) for v in values],
        mode_types=tuple(1 if m == Mode.compressed else 0 for m in st.fmt.modes),
        dimensions=tuple(st.dims),
        mode_ordering=tuple(st.fmt.ordering),
    )
    return Tensor(ct)
