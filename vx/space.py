"""Alphabets of the kernel explorer: programs, formats, dimension vectors, joint structures.

Programs are nested tuples so that they can be written to replay files and rebuilt without the
parser:  ("t", name, (idx...)) | ("n", spelling) | (op, left, right) with op in "+-*".
An assignment is (target_name, target_indexes, tree).
"""

from __future__ import annotations

import itertools
from fractions import Fraction

from tensora.expression import ast as sugar

from .tensors import all_formats, count_structures, enumerate_structures, fmt_str, full_structure

INDEX_NAMES = ("i", "j", "k")


# ------------------------------------------------------------------- trees


def tree_shapes(n_leaves):
    """All binary tree shapes with n leaves: 'L' or (left, right)."""
    if n_leaves == 1:
        yield "L"
        return
    for nl in range(1, n_leaves):
        for l in tree_shapes(nl):
            for r in tree_shapes(n_leaves - nl):
                yield (l, r)


def _fill(shape, leaves, ops):
    """Fill a shape with leaves (consumed left to right) and operators (pre-order)."""
    leaves = iter(leaves)
    ops = iter(ops)

    def rec(s):
        if s == "L":
            return next(leaves)
        op = next(ops)
        return (op, rec(s[0]), rec(s[1]))

    return rec(shape)


def tree_leaves(tree):
    if tree[0] in ("t", "n"):
        return [tree]
    return tree_leaves(tree[1]) + tree_leaves(tree[2])


def to_sugar(tree):
    if tree[0] == "t":
        return sugar.Tensor(tree[1], tuple(tree[2]))
    if tree[0] == "n":
        s = tree[1]
        if any(ch in s for ch in ".eE"):
            return sugar.Float(float(s))
        return sugar.Integer(int(s))
    l, r = to_sugar(tree[1]), to_sugar(tree[2])
    return {"+": sugar.Add, "-": sugar.Subtract, "*": sugar.Multiply}[tree[0]](l, r)


def to_assignment(prog) -> sugar.Assignment:
    tname, tidx, tree = prog
    return sugar.Assignment(sugar.Tensor(tname, tuple(tidx)), to_sugar(tree))


def prog_str(prog) -> str:
    return to_assignment(prog).deparse()


def prog_json(prog):
    def rec(t):
        if t[0] in ("t",):
            return ["t", t[1], list(t[2])]
        if t[0] == "n":
            return ["n", t[1]]
        return [t[0], rec(t[1]), rec(t[2])]

    return [prog[0], list(prog[1]), rec(prog[2])]


def prog_from_json(j):
    def rec(t):
        if t[0] == "t":
            return ("t", t[1], tuple(t[2]))
        if t[0] == "n":
            return ("n", t[1])
        return (t[0], rec(t[1]), rec(t[2]))

    return (j[0], tuple(j[1]), rec(j[2]))


def index_tuples(order, names=INDEX_NAMES):
    return list(itertools.permutations(names, order))


def _canonical_indexes(target_idx, leaves):
    """True if indexes appear for the first time in the order i, j, k."""
    seen = []
    for idx in [target_idx] + [l[2] for l in leaves if l[0] == "t"]:
        for x in idx:
            if x not in seen:
                seen.append(x)
    return tuple(seen) == INDEX_NAMES[: len(seen)]


def enumerate_programs(
    max_leaves,
    max_total_order,
    literals=(),
    max_order=3,
    target_orders=(0, 1, 2, 3),
    ops="+-*",
    repeats=True,
    min_leaves=1,
    names=("b", "c", "d", "e", "f", "g"),
    target="a",
    min_total_order=0,
):
    """All assignments within the bound, index names canonical by first appearance.

    A leaf is a tensor reference (fresh positional name, or -- if `repeats` -- an earlier name with
    an index tuple of the same order) or a literal spelling.  At least one leaf is a tensor unless
    the program is a pure literal assignment.
    """
    out = []
    for n_leaves in range(min_leaves, max_leaves + 1):
        shapes = list(tree_shapes(n_leaves))
        for t_order in target_orders:
            for t_idx in index_tuples(t_order):
                budget = max_total_order - t_order
                # leaf alternatives
                def leaf_seqs(k, used_names, remaining):
                    if k == 0:
                        yield []
                        return
                    # literals
                    for lit in literals:
                        for rest in leaf_seqs(k - 1, used_names, remaining):
                            yield [("n", lit), *rest]
                    for o in range(0, min(max_order, remaining) + 1):
                        for idx in index_tuples(o):
                            # fresh name
                            fresh = names[len(used_names)]
                            for rest in leaf_seqs(k - 1, used_names + [(fresh, o)], remaining - o):
                                yield [("t", fresh, idx), *rest]
                            if repeats:
                                for nm, oo in used_names:
                                    if oo == o:
                                        for rest in leaf_seqs(k - 1, used_names, remaining - o):
                                            yield [("t", nm, idx), *rest]

                for leaves in leaf_seqs(n_leaves, [], budget):
                    if not _canonical_indexes(t_idx, leaves):
                        continue
                    total = t_order + sum(len(l[2]) for l in leaves if l[0] == "t")
                    if total < min_total_order:
                        continue
                    for shape in shapes:
                        for opsel in itertools.product(ops, repeat=n_leaves - 1):
                            out.append((target, tuple(t_idx), _fill(shape, leaves, opsel)))
    return out


# --------------------------------------------------------------- formats


def tensor_orders(prog):
    """name -> order, target first, then operands by first appearance."""
    orders = {prog[0]: len(prog[1])}
    for l in tree_leaves(prog[2]):
        if l[0] == "t" and l[1] not in orders:
            orders[l[1]] = len(l[2])
    return orders


def format_combos(prog):
    orders = tensor_orders(prog)
    names = list(orders)
    return names, itertools.product(*[all_formats(orders[n]) for n in names])


def count_format_combos(prog):
    n = 1
    for o in tensor_orders(prog).values():
        n *= len(all_formats(o))
    return n


# ------------------------------------------------------------ dimensions


def prog_indexes(prog):
    seen = []
    for idx in [prog[1]] + [l[2] for l in tree_leaves(prog[2]) if l[0] == "t"]:
        for x in idx:
            if x not in seen:
                seen.append(x)
    return seen


def operand_refs(prog):
    """name -> index tuple of its first reference (operands only)."""
    refs = {}
    for l in tree_leaves(prog[2]):
        if l[0] == "t" and l[1] not in refs:
            refs[l[1]] = l[2]
    return refs


def all_refs(prog):
    refs = {}
    for l in tree_leaves(prog[2]):
        if l[0] == "t":
            refs.setdefault(l[1], []).append(l[2])
    return refs


def consistent_dims(prog, DIM):
    """A tensor referenced twice with different index tuples constrains dimensions."""
    for name, reflist in all_refs(prog).items():
        first = reflist[0]
        for other in reflist[1:]:
            for a, b in zip(first, other, strict=True):
                if DIM[a] != DIM[b]:
                    return False
    return True


def joint_count(prog, fmts: dict, DIM):
    n = 1
    for name, idx in operand_refs(prog).items():
        n *= count_structures(fmts[name], tuple(DIM[x] for x in idx))
    return n


def dim_vectors(prog, fmts, cap, deviations=True, base=(1, 2)):
    """Dimension vectors explored for one kernel.

    Defaults: the maximal vectors over `base` whose joint structure count is <= cap.  Deviations:
    for each index, that index set to 0 and to 3 with the others as large (2, else 1) as the cap
    allows.  Returns a list of (DIM dict, tag).
    """
    idx = prog_indexes(prog)
    if not idx:
        return [({}, "default")]
    ok = []
    for vec in itertools.product(sorted(base, reverse=True), repeat=len(idx)):
        DIM = dict(zip(idx, vec, strict=True))
        if not consistent_dims(prog, DIM):
            continue
        if joint_count(prog, fmts, DIM) <= cap:
            ok.append(vec)
    maximal = [v for v in ok if not any(w != v and all(a <= b for a, b in zip(v, w)) for w in ok)]
    out = [(dict(zip(idx, v, strict=True)), "default") for v in maximal]
    if deviations:
        seen = {v for v in maximal}
        for pos in range(len(idx)):
            for val in (0, 3, 1):
                for other in (2, 1):
                    vec = tuple(val if q == pos else other for q in range(len(idx)))
                    DIM = dict(zip(idx, vec, strict=True))
                    if not consistent_dims(prog, DIM):
                        continue
                    if joint_count(prog, fmts, DIM) <= cap:
                        if vec not in seen:
                            seen.add(vec)
                            out.append((DIM, f"dev:{idx[pos]}={val}"))
                        break
    return out


def joint_structures(prog, fmts, DIM):
    """Every joint choice of stored structure for the operands (dict name -> Structure)."""
    refs = operand_refs(prog)
    names = list(refs)
    per = [list(enumerate_structures(fmts[n], tuple(DIM[x] for x in refs[n]))) for n in names]
    for combo in itertools.product(*per):
        yield dict(zip(names, combo, strict=True))


def full_joint_structure(prog, fmts, DIM):
    refs = operand_refs(prog)
    return {n: full_structure(fmts[n], tuple(DIM[x] for x in refs[n])) for n in refs}


def fmts_json(names, fmts):
    return {n: fmt_str(fmts[n]) for n in names}


def literal_value(spelling: str) -> Fraction:
    if any(ch in spelling for ch in ".eE"):
        return Fraction(float(spelling))
    return Fraction(int(spelling))
