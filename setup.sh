#!/bin/bash
# Builds what the checks need from files on disk only (offline). Idempotent.
set -e
here="$(cd "$(dirname "${BASH_SOURCE[0]}")" && pwd)"
cd "$here"
mkdir -p build evidence replays
/venv/bin/python -c "import tensora, llvmlite, cffi; print('tensora from', tensora.__file__)" 2>&1 | grep -v 'WARNING: '
if [ -f native/shim.c ]; then
  gcc -O1 -shared -fPIC -o build/shim.so native/shim.c -ldl
fi
echo "setup ok"
