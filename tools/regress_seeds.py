#!/usr/bin/env python3
"""Runs every seeded change against the quick checks its meta.json says catch it; prints a table.
Usage: tools/regress_seeds.py [seed ...]   (applies each patch to /repo, runs, restores)"""
import glob, json, os, subprocess, sys
want = set(sys.argv[1:])
rows = []
for m in sorted(glob.glob("/verif/seeded/*/meta.json")):
    sid = os.path.basename(os.path.dirname(m))
    if want and sid not in want:
        continue
    d = json.load(open(m))
    checks = d.get("caught_by", [])
    p = subprocess.run(["/verif/tools/try_seed_scratch.sh", f"/verif/seeded/{sid}/patch.diff", *checks], capture_output=True, text=True, env={**os.environ, "VERIF_FAIL_FAST": "1"})
    res = {}
    for line in p.stdout.splitlines():
        if line.startswith("== "):
            parts = line.split()
            res[parts[1]] = parts[2] + " " + parts[3]
    # caught = exit status 1 AND at least one VIOLATION line (a crash of the check itself does not count)
    ok = all(res.get(c, "").startswith("exit=1") and not res.get(c, "").endswith("violations=0") for c in checks)
    rows.append((sid, d["property"], checks, res, ok))
    print(f"{sid:8s} {d['property']} {'CAUGHT' if ok else 'MISSED'} {res}", flush=True)
print(f"{sum(r[4] for r in rows)}/{len(rows)} seeds caught by every check listed for them")
