#!/bin/bash
# tools/intake_seed.sh <seed id> <agent worktree>: copy patch+demo to seeded/<id>, confirm in a
# fresh scratch worktree of /repo HEAD that the demo passes without and fails with the patch.
set -u
id="$1"; wt="$2"
dst=/verif/seeded/$id
mkdir -p "$dst"
cp "$wt/patch.diff" "$dst/patch.diff" || exit 2
cp "$wt/demo.py" "$dst/demo.py" || exit 2
s=/tmp/scratch_$id
git -C /repo worktree remove --force "$s" 2>/dev/null
git -C /repo worktree add -q --detach "$s" HEAD || exit 2
cd "$s"
PYTHONPATH=$s/src timeout 900 /venv/bin/python "$dst/demo.py" > "$dst/demo_without.log" 2>&1; r0=$?
if ! git apply --check "$dst/patch.diff"; then echo "$id: PATCH DOES NOT APPLY to /repo HEAD"; git -C /repo worktree remove --force "$s"; exit 3; fi
git apply "$dst/patch.diff"
PYTHONPATH=$s/src timeout 900 /venv/bin/python "$dst/demo.py" > "$dst/demo_with.log" 2>&1; r1=$?
echo "$id: demo without patch exit=$r0 ; with patch exit=$r1"
if [ "${SUITE:-0}" = "1" ]; then
  PYTHONPATH=$s/src timeout 3000 /venv/bin/python -m pytest -q -p no:cacheprovider tests tests_cffi > "$dst/suite_with.log" 2>&1
  echo "$id: suite: $(tail -1 $dst/suite_with.log)"
fi
cd /; git -C /repo worktree remove --force "$s"
