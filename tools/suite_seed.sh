#!/bin/bash
# tools/suite_seed.sh <seed id>: run the repository's own suite with the seeded patch applied, in a scratch worktree
id="$1"; dst=/verif/seeded/$id; s=/tmp/suite_$id
git -C /repo worktree remove --force "$s" 2>/dev/null
git -C /repo worktree add -q --detach "$s" HEAD || exit 2
cd "$s" && git apply "$dst/patch.diff" || { echo "$id: patch does not apply"; exit 3; }
PYTHONPATH=$s/src timeout 5000 /venv/bin/python -m pytest -q -p no:cacheprovider tests tests_cffi > "$dst/suite_with.log" 2>&1
echo "$id: $(tail -1 $dst/suite_with.log)"
cd /; git -C /repo worktree remove --force "$s"
