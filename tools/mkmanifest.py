#!/usr/bin/env python3
"""Regenerates /verif/MANIFEST.json from the table below (python3 tools/mkmanifest.py)."""
import json
import os
import subprocess

HERE = os.path.dirname(os.path.dirname(os.path.abspath(__file__)))

AM_NOTE = ("Trusted base: the IR abstract machine (vx/am.py) as the meaning of tensora IR - bound to the "
           "implementation by C06's native replay (gcc/clang/llvmlite JIT, bit-identical heaps); the reference "
           "models in vx/refmodel.py; bounds as stated in the evidence file.")

CHECKS = {
    "C01": dict(engine="KX+RT", ref="4/C01", technique="bounded-exhaustive explicit-state exploration: programs x formats x "
                "dimension vectors x all joint sparsity structures, executed on an IR abstract machine with "
                "indeterminate values, compared with a tensor-algebra reference model",
                text="Every evaluate kernel of the bounded program/format space is executed on every joint input "
                     "structure with symbolic-free generic values (polynomial ring), so the value equation is decided "
                     "for all real inputs on every explored structure; exhaustive within the stated bounds.",
                note=AM_NOTE),
    "C02": dict(engine="KX", ref="4/C02", technique="bounded-exhaustive explicit-state exploration on the IR abstract "
                "machine; state invariant = well-formedness of the output heap image (exact block lengths visible)",
                text="Every kernel with a compressed output level x every input structure x small initial capacities: "
                     "the final heap image of evaluate and of assemble(+compute) is validated clause by clause.",
                note=AM_NOTE),
    "C03": dict(engine="KX", ref="4/C03", technique="bounded-exhaustive explicit-state exploration; stored prefixes of "
                "every compressed output level compared with a set-valued support model",
                text="All sparsity patterns (incl. empty operands/rows/segments) of every kernel with a compressed "
                     "output level are enumerated; every stored level prefix (stored-but-empty ones included) is "
                     "decoded from the raw pos/crd arrays.",
                note=AM_NOTE),
    "C04": dict(engine="KX", ref="4/C04", technique="bounded-exhaustive exploration of call histories "
                "(evaluate | assemble, compute, compute', compute'') on the IR abstract machine with frozen-structure "
                "monitors",
                text="Each state is a 5-call history over one heap; structure equality with evaluate, no "
                     "(re)allocation in compute and value correctness after every re-valued compute are checked.",
                note=AM_NOTE),
    "C05": dict(engine="KX", ref="4/C05", technique="bounded-exhaustive explicit-state exploration; every "
                "load/store/realloc/step of every kernel monitored on the IR abstract machine (bounds, init bits, "
                "ownership, int32, typing, step budget) over all structures x capacities",
                text="Memory safety, input immutability, overflow freedom and termination are state invariants of "
                     "the abstract machine, evaluated on every transition of every explored execution.",
                note=AM_NOTE),
    "C07": dict(engine="KX+TX", ref="4/C07", technique="bounded-exhaustive differential execution of unoptimised vs "
                "peephole-optimised IR on the abstract machine: (a) every generated kernel over all structures, (b) "
                "every well-typed IR expression/statement tree within the bound over all small environments",
                text="Every generated kernel before/after the peephole pass on every explored state, and every IR tree "
                     "of the bounded tree space on every environment where the original is safe: same return value, "
                     "state and heap contents; optimised access set is a subset; no new fault.",
                note=AM_NOTE + " The unoptimised module comes from the TENSORA_VERIF_NO_PEEPHOLE hook."),
    "C16": dict(engine="KX", ref="4/C16", technique="bounded-exhaustive exploration with loop-iteration/statement "
                "counters of the IR abstract machine compared across dimension scalings x1..x10^4",
                text="For every kernel/index meeting the hypothesis and every structure, executed work is compared "
                     "across four scalings and with entries moved to the far end of the enlarged dimension.",
                note=AM_NOTE),
}

CHECKS["C06"] = dict(engine="NX+TX", ref="4/C06", technique="conformance replay: every abstract-machine trace of the "
                     "bounded kernel/structure space is re-executed natively (gcc ASan+UBSan on the emitted C, clang-14 "
                     "ASan on the emitted LLVM, llvmlite MCJIT) and compared bit for bit",
                     text="Kernels of the base program space x all formats x all joint structures within the cap are "
                          "driven through evaluate; assemble; compute; compute' on four executors, and every IR tree of "
                          "the printer space is printed, compiled (gcc, MCJIT) and run on 128 environments; a menu of "
                          "rounding-sensitive sentences goes through tensora's own cffi build and MCJIT; any "
                          "divergence of a return value or array is a violation. This replay also binds the AM to the code.",
                     note="Trusted base: gcc 12, clang-14, llvmlite/LLVM, the C driver (native/driver.c); exact-value input "
                          "alphabet (rounding covered by a separate sub-sweep).")
CHECKS["C09"] = dict(engine="DX", ref="4/C09", technique="explicit-state breadth-first search over Tensor histories on the "
                     "real objects (constructors x input variants, then to_format / pickle / dok round trips) against a "
                     "dict reference model, canonical-state hashing",
                     text="All formats of order 0..3 (4 thorough) x dimensions x all cell subsets x all constructors; every "
                          "canonical state is expanded by every transition until closure.",
                     note="Trusted base: the dict model and canonical-structure builder in vx/tensors.py.")

CHECKS["C08"] = dict(engine="GX", ref="4/C08", technique="bounded-exhaustive enumeration of generation requests (programs x "
                     "formats x kind subsets x languages x identifier classes) through the real generate_code / CLI / "
                     "tensor_method with outcome classification and tool-chain acceptance of every returned text",
                     text="Every request of the bounded space is issued; the outcome must be code or a documented typed "
                          "refusal within the time limit, the CLI must mirror it, and gcc -fsyntax-only / LLVM verify must "
                          "accept every text.",
                     note="Trusted base: gcc 12 and llvmlite as acceptance oracles; 20 s hang threshold.")
CHECKS["C10"] = dict(engine="RX", ref="4/C10", technique="bounded-exhaustive enumeration of argument vectors (all dimension "
                     "vectors over {1,2,3} per operand dimension, all single deviations) against compiled tensor methods "
                     "with a kernel-entry counter",
                     text="Consistent and inconsistent calls are both enumerated completely for every assignment of the menu, "
                          "so the harness's own consistency predicate is exercised in both directions.",
                     note="Trusted base: the consistency predicate and reference model of the harness; the entry counter wraps "
                          "TensorMethod._evaluate when present (else only 'must not return' is used).")
CHECKS["C11"] = dict(engine="RX", ref="4/C11", technique="bounded-exhaustive enumeration of operand format pairs x dimensions "
                     "x stored-set pairs x operators on the real Tensor objects against dict arithmetic",
                     text="All ordered format pairs of order 0..2 (3 thorough), all small sparsity patterns, scalars on either "
                          "side and @ for all order pairs (each pattern also with inexact operands under an "
                          "any-summation-order rounding oracle); results decoded from the raw arrays.",
                     note="Trusted base: dict arithmetic on exact dyadic values; Python float arithmetic for the rounding oracle.")
CHECKS["C12"] = dict(engine="SX", ref="4/C12", technique="bounded-exhaustive enumeration of all strings up to a length bound, "
                     "all syntax trees up to a leaf bound and all their sentences, through the real parsers/deparsers; "
                     "independent recogniser and Python arithmetic as oracles",
                     text="Totality, round trip and conventional meaning are decided for every string/tree/sentence within "
                          "the bounds; meaning is also observed at the far end of the compiler (every tree up to 5 leaves "
                          "compiled and run on the IR abstract machine with all dimensions 1) and on both real back ends.",
                     note="Trusted base: the independent format recogniser and Python's expression evaluation.")
CHECKS["C15"] = dict(engine="PX", ref="4/C15", technique="explicit-state search over cache states (sets of served requests, "
                     "rebuilt by history replay on a cleared cache) plus enumeration of interpreter hash seeds until all "
                     "probe-set iteration orders were observed",
                     text="Every explored cache state x every request: text, CLI output, kernel identity and raw results are "
                          "compared with a fresh cache; digests of all generated text are compared across hash seeds.",
                     note="Assumption: the hash seed reaches tensora only via iteration orders of small string sets.")

CHECKS["C13"] = dict(engine="HX", ref="4/C13", technique="explicit-state breadth-first search over operation histories on live "
                     "objects (state rebuilt by history replay, canonical-state hashing) with an LD_PRELOAD malloc/free "
                     "interposer as the observer and a liveness reference model as the oracle",
                     text="Every history up to the depth bound over {evaluate, alias, keep-struct, read, pickle, feed, del, "
                          "gc} on three slots is executed on the real objects; after every step the interposer's view of "
                          "every kernel-allocated array is compared with the model.",
                     note="Trusted base: the interposer (native/shim.c), CPython reference counting semantics, glibc malloc.")

CHECKS["C14"] = dict(engine="TS", ref="4/C14", technique="stateless model checking of real Python threads: cooperative scheduler "
                     "(sys.settrace line events as scheduling points, scheduler-aware lock), depth-first enumeration of all "
                     "schedules under an iterated preemption bound, every execution compared with the sequential results",
                     text="All interleavings of 2 (3 thorough) concurrent evaluate / operator calls within the preemption "
                          "bound are executed on the real code for warm/cold/full cache, same/different problems, a "
                          "concurrent drop+gc and concurrent compilation with the code generator visible; guard zones "
                          "behind kernel allocations; each schedule is deterministic and replayable from its choice sequence.",
                     note="Not decided: true parallelism inside GIL-released native code; switches inside one source line. "
                          "GC is disabled during an execution. Trusted base: the scheduler in vx/ts.py.")

NOT_APPLICABLE = {}
PENDING = []


def main():
    checks = []
    for pid, c in sorted(CHECKS.items()):
        checks.append({
            "property_id": pid,
            "quick_cmd": f"./check {pid} --tier quick",
            "thorough_cmd": f"./check {pid} --tier thorough",
            "evidence_file": f"/verif/evidence/{pid}.json",
            "replay_cmd_template": f"./check {pid} --replay {{path}}",
            "engine": c["engine"],
            "level_claimed": {"category": "model_checking", "text": c["text"], "design_ref": c["ref"]},
            "level_note": c["note"],
            "technique": c["technique"],
        })
    na = [{"property_id": k, "reason": v} for k, v in sorted(NOT_APPLICABLE.items())]
    na += [{"property_id": k, "reason": "check not built yet in this revision (planned, see DESIGN.md section 4); "
            "not claimed until its machinery is committed"} for k in PENDING if k not in CHECKS]
    hooks = subprocess.run(["git", "-C", "/repo", "log", "--format=%H %s"], capture_output=True, text=True).stdout
    hook_commits = [l.split()[0] for l in hooks.splitlines() if " verif hook:" in l]
    manifest = {
        "version": 1,
        "setup_cmd": "./setup.sh",
        "hooks": {
            "guard": "TENSORA_VERIF",
            "enable": "environment: TENSORA_VERIF=1 plus TENSORA_VERIF_INITIAL_CAPACITY=<n> / "
                      "TENSORA_VERIF_NO_PEEPHOLE=1 (read at call time by /repo/src; ./check exports the guard); "
                      "tensora is imported from /repo/src (editable install), so there is no build step",
            "baseline_off_cmd": "cd /repo && env -u TENSORA_VERIF -u TENSORA_VERIF_INITIAL_CAPACITY "
                                "-u TENSORA_VERIF_NO_PEEPHOLE /venv/bin/python -m pytest -ra -q -p no:cacheprovider "
                                "--timeout=900 --continue-on-collection-errors",
            "source_commits": hook_commits,
            "add_only": True,
        },
        "engines": [
            {"name": "AM", "path": "vx/am.py", "serves_properties": ["C01", "C02", "C03", "C04", "C05", "C06", "C07", "C16"],
             "kind_free_text": "explicit-state abstract machine for tensora IR with monitors"},
            {"name": "GX", "path": "vx/checks/c08.py", "serves_properties": ["C08"],
             "kind_free_text": "generation-request explorer with tool-chain acceptance"},
            {"name": "RX", "path": "vx/rt.py", "serves_properties": ["C10", "C11"],
             "kind_free_text": "explorers over the real runtime objects (Tensor, TensorMethod)"},
            {"name": "SX", "path": "vx/checks/c12.py", "serves_properties": ["C12"],
             "kind_free_text": "string / tree / sentence explorer for the parsers"},
            {"name": "PX", "path": "vx/checks/c15.py", "serves_properties": ["C15"],
             "kind_free_text": "cache-state search + hash-seed enumeration"},
            {"name": "TS", "path": "vx/ts.py", "serves_properties": ["C14"],
             "kind_free_text": "thread-schedule explorer (cooperative scheduler, preemption bounding)"},
            {"name": "HX", "path": "vx/hx.py", "serves_properties": ["C13"],
             "kind_free_text": "history explorer over live cffi objects with a malloc interposer"},
            {"name": "NX", "path": "vx/nx.py", "serves_properties": ["C06"],
             "kind_free_text": "native conformance harness: gcc/clang sanitizer builds + MCJIT vs abstract machine"},
            {"name": "DX", "path": "vx/checks/c09.py", "serves_properties": ["C09"],
             "kind_free_text": "breadth-first search over Tensor construction/conversion histories"},
            {"name": "TX", "path": "vx/tx.py", "serves_properties": ["C06", "C07"],
             "kind_free_text": "IR tree explorer: all well-typed expression/statement trees within a bound x all small "
                               "environments (peephole equivalence on the AM; printers vs gcc and MCJIT)"},
            {"name": "RT", "path": "vx/rtsweep.py", "serves_properties": ["C01", "C02", "C03"],
             "kind_free_text": "the kernel explorer's oracles through the real tensor_method call path (raw C arrays)"},
            {"name": "KX", "path": "vx/kx.py", "serves_properties": ["C01", "C02", "C03", "C04", "C05", "C07", "C16"],
             "kind_free_text": "kernel explorer: programs x formats x dimensions x joint structures x capacities"},
        ],
        "checks": checks,
        "not_applicable": na,
        "notes": "All checks: ./check <ID> [--tier quick|thorough] [--replay file]; VERIF_SEED rotates enumeration "
                 "order and sets PYTHONHASHSEED only - every case always runs (C14 orders its work units by cost instead). VERIF_TIME_BUDGET=<seconds> caps one invocation (default: none for quick, 9000 for thorough); a capped run reports exhaustive=false and the number of work units not explored in its evidence file. Known findings: known_findings.json. Seeded breaking changes and what catches them: seeded/README.md.",
    }
    with open(os.path.join(HERE, "MANIFEST.json"), "w") as f:
        json.dump(manifest, f, indent=1)
        f.write("\n")
    print("wrote MANIFEST.json with", len(checks), "checks")


if __name__ == "__main__":
    main()
