#!/bin/bash
# tools/try_seed.sh <patch.diff> <check id>... : applies a seeded change to /repo, runs the given
# quick checks, and ALWAYS restores /repo's tracked files afterwards. Prints one line per check.
set -u
patch="$(realpath "$1")"; shift
cd /repo || exit 2
if ! git diff --quiet; then echo "refusing: /repo has uncommitted changes"; exit 2; fi
if ! git apply --check "$patch" 2>/dev/null; then echo "patch does not apply: $patch"; exit 2; fi
git apply "$patch"
trap 'git -C /repo checkout -- . ; git -C /repo status --short | grep -v "^??" ' EXIT
cd /verif
for c in "$@"; do
  out=$(./check "$c" --tier "${TIER:-quick}" 2>&1); rc=$?
  nv=$(echo "$out" | grep -c '^VIOLATION')
  echo "== $c exit=$rc violations=$nv"
  echo "$out" | grep -A1 '^VIOLATION' | grep 'what:' | head -4
done
