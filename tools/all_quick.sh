#!/bin/bash
# tools/all_quick.sh [ids...]: every quick check on /repo itself, one line per check (regenerates evidence/*.json)
cd /verif
ids="${@:-C01 C02 C03 C04 C05 C06 C07 C08 C09 C10 C11 C12 C13 C14 C15 C16}"
for c in $ids; do
  s=$(date +%s)
  out=$(./check "$c" --tier quick 2>&1); rc=$?
  echo "$c rc=$rc $(( $(date +%s) - s ))s $(echo "$out" | grep -c '^VIOLATION') violations, $(echo "$out" | grep -c '^KNOWN-FINDING') known | $(echo "$out" | tail -1 | cut -c1-200)"
  [ $rc -ne 0 ] && echo "$out" | grep -A2 '^VIOLATION\|CHECK-ERROR\|Traceback' | head -20
done
