#!/bin/bash
# tools/wave.sh <worktree prefix e.g. /tmp/w4_c> <suffix letter e.g. d> [ids...]: intake + first run of a wave of seeds
pre="$1"; suf="$2"; shift 2
ids="${@:-01 02 03 04 05 06 07 08 09 10 11 12 13 14 15 16}"
for i in $ids; do
  wt="${pre}${i}"; sid="c${i}-${suf}"
  [ -f "$wt/patch.diff" ] && [ -f "$wt/demo.py" ] || { echo "$sid: not ready"; continue; }
  sed -i 's|assert tensora.__file__.startswith(.*$|pass  # harness: absolute-path assertion removed so the demo runs in any scratch worktree|' "$wt/demo.py"
  /verif/tools/intake_seed.sh "$sid" "$wt" 2>&1 | grep -v WARN
  VERIF_FAIL_FAST=1 /verif/tools/try_seed_scratch.sh "/verif/seeded/$sid/patch.diff" "C${i}" 2>&1 | grep -v WARN | cut -c1-260
done
