#!/bin/bash
# tools/try_seed_scratch.sh <patch.diff|-> <check id>... : like try_seed.sh but in a scratch worktree of /repo HEAD
# (VERIF_REPO), so /repo itself is never touched. "-" as the patch runs the checks on an unchanged scratch copy.
set -u
patch="$1"; shift
if [ "$patch" != "-" ]; then patch="$(realpath "$patch")"; fi
s=/tmp/vr_$$_$RANDOM
git -C /repo worktree add -q --detach "$s" HEAD || exit 2
trap 'git -C /repo worktree remove --force "$s"' EXIT
if [ "$patch" != "-" ]; then (cd "$s" && git apply "$patch") || { echo "patch does not apply"; exit 2; }; fi
cd /verif
for c in "$@"; do
  out=$(VERIF_REPO="$s" ./check "$c" --tier "${TIER:-quick}" 2>&1); rc=$?
  nv=$(echo "$out" | grep -c '^VIOLATION')
  echo "== $c exit=$rc violations=$nv"
  echo "$out" | grep -A1 '^VIOLATION' | grep 'what:' | head -4 | cut -c1-300
done
