#!/usr/bin/env python3
"""Regenerates seeded/README.md from seeded/*/meta.json."""
import glob, json, os
rows = []
for m in sorted(glob.glob("/verif/seeded/*/meta.json")):
    d = json.load(open(m))
    rows.append((os.path.basename(os.path.dirname(m)), d))
with open("/verif/seeded/README.md", "w") as f:
    f.write("# Seeded property-breaking changes\n\nEach directory holds `patch.diff` (applies to /repo with `git apply`), "
            "a demonstration that fails with the change and passes without it, and `meta.json`. None is ever committed to "
            "/repo. `tools/try_seed.sh <patch> <checks...>` applies one, runs the checks and restores /repo.\n\n"
            "| id | property | change | needs | repo suite | caught by (quick) | not caught by |\n|---|---|---|---|---|---|---|\n")
    for name, d in rows:
        f.write(f"| {name} | {d['property']} | {d['change']} | {d['needs']} | {d.get('suite','')} | "
                f"{', '.join(d.get('caught_by', [])) or '-'} | {', '.join(d.get('missed_by', [])) or '-'} |\n")
print("wrote seeded/README.md with", len(rows), "entries")
