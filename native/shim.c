/* LD_PRELOAD interposer for C13 and C14: observes free()/realloc() on addresses the harness registers.
 *
 * Watch table entry states: LIVE (registered, not yet freed), FREED (freed once, address not yet
 * handed out again), GONE (the allocator handed the address out again: whatever happens to it now
 * concerns a new object).  A second free of a FREED address is recorded and NOT forwarded, so
 * glibc cannot abort before the violation is reported.  Bootstrap-safe (dlsym may call calloc).
 */
#define _GNU_SOURCE
#include <dlfcn.h>
#include <stddef.h>
#include <stdint.h>
#include <string.h>

static void *(*real_malloc)(size_t);
static void (*real_free)(void *);
static void *(*real_realloc)(void *, size_t);
static void *(*real_calloc)(size_t, size_t);
static int (*real_posix_memalign)(void **, size_t, size_t);
static void *(*real_aligned_alloc)(size_t, size_t);
static void *(*real_memalign)(size_t, size_t);
static char boot[65536];
static size_t boot_off;
static int initing;

#define NWATCH 4096
enum { W_EMPTY = 0, W_LIVE = 1, W_FREED = 2, W_GONE = 3 };
typedef struct {
  uintptr_t addr;
  int state;
  int free_count;
  int realloc_count;
} watch_t;
static watch_t table[NWATCH];
static int nwatch;
static volatile int lock_;

static void lock(void) { while (__sync_lock_test_and_set(&lock_, 1)) {} }
static void unlock(void) { __sync_lock_release(&lock_); }

static void init(void) {
  initing = 1;
  real_malloc = dlsym(RTLD_NEXT, "malloc");
  real_free = dlsym(RTLD_NEXT, "free");
  real_realloc = dlsym(RTLD_NEXT, "realloc");
  real_calloc = dlsym(RTLD_NEXT, "calloc");
  real_posix_memalign = dlsym(RTLD_NEXT, "posix_memalign");
  real_aligned_alloc = dlsym(RTLD_NEXT, "aligned_alloc");
  real_memalign = dlsym(RTLD_NEXT, "memalign");
  initing = 0;
}

/* the entry that currently describes address a: LIVE or FREED (GONE entries are history) */
static watch_t *find(uintptr_t a) {
  for (int i = 0; i < nwatch; i++)
    if (table[i].addr == a && (table[i].state == W_LIVE || table[i].state == W_FREED)) return &table[i];
  return NULL;
}

/* ---- optional tracking of every allocation (after verif_track(1)): finds a free() of an address
 * that was freed and not handed out again since, whoever owns it ---- */
#define TBITS 21
#define TSIZE (1u << TBITS)
static uintptr_t t_addr[TSIZE];
static unsigned char t_state[TSIZE]; /* 0 empty, 1 live, 2 freed */
static volatile int tracking;
static int t_used, double_frees;
static uintptr_t last_double_free;

static unsigned t_slot(uintptr_t a) {
  unsigned h = (unsigned)((a >> 4) * 2654435761u) & (TSIZE - 1);
  for (unsigned n = 0; n < TSIZE; n++, h = (h + 1) & (TSIZE - 1)) {
    if (t_state[h] == 0 || t_addr[h] == a) return h;
  }
  return TSIZE;
}

static void track_alloc(void *p) {
  if (!tracking || !p) return;
  lock();
  if (t_used < (int)(TSIZE / 2)) {
    unsigned h = t_slot((uintptr_t)p);
    if (h < TSIZE) {
      if (t_state[h] == 0) { t_used++; t_addr[h] = (uintptr_t)p; }
      t_state[h] = 1;
    }
  }
  unlock();
}

/* returns 1 if this free must be swallowed (double free) */
static int track_free(void *p) {
  if (!tracking || !p) return 0;
  int swallow = 0;
  lock();
  unsigned h = t_slot((uintptr_t)p);
  if (h < TSIZE && t_state[h] != 0 && t_addr[h] == (uintptr_t)p) {
    if (t_state[h] == 2) { double_frees++; last_double_free = (uintptr_t)p; swallow = 1; }
    else t_state[h] = 2;
  }
  unlock();
  return swallow;
}

static void handed_out(void *p) {
  track_alloc(p);
  if (!p || !nwatch) return;
  lock();
  watch_t *w = find((uintptr_t)p);
  if (w && w->state == W_FREED) w->state = W_GONE;
  unlock();
}


/* ---- optional guard zones behind every block that KERNEL code allocates (after verif_guard(1)).
 * Kernel code = the caller's return address lies in no loaded object (MCJIT code) or in an object
 * whose name contains "taco_kernel" (the cffi back end).  A guarded block is GUARD bytes longer than
 * requested and the tail holds a canary: a kernel that writes past what it asked for smashes it
 * (counted at free/realloc and by verif_guard_check), and Python reading past it reads canary bytes
 * instead of whatever the allocator left there. ---- */
#define GUARD 64
#define CANARY 0xA5
#define GBITS 16
#define GSIZE (1u << GBITS)
static uintptr_t g_addr[GSIZE];
static size_t g_size[GSIZE];
static unsigned char g_state[GSIZE]; /* 0 empty, 1 live, 2 tombstone */
static volatile int guarding;
static int g_live, g_tombs, overflows, guarded_total;
static uintptr_t last_overflow;

static int from_kernel(void *ret) {
  Dl_info info;
  if (!dladdr(ret, &info) || !info.dli_fname) return 1;
  return strstr(info.dli_fname, "taco_kernel") != NULL;
}

static unsigned g_find(uintptr_t a) { /* slot of live entry a, or GSIZE */
  unsigned h = (unsigned)((a >> 4) * 2654435761u) & (GSIZE - 1);
  for (unsigned n = 0; n < GSIZE; n++, h = (h + 1) & (GSIZE - 1)) {
    if (g_state[h] == 0) return GSIZE;
    if (g_state[h] == 1 && g_addr[h] == a) return h;
  }
  return GSIZE;
}

static void g_rebuild(void) {
  static uintptr_t a2[GSIZE];
  static size_t s2[GSIZE];
  unsigned k = 0;
  for (unsigned i = 0; i < GSIZE; i++)
    if (g_state[i] == 1) { a2[k] = g_addr[i]; s2[k] = g_size[i]; k++; }
  memset(g_state, 0, sizeof g_state);
  g_tombs = 0;
  for (unsigned i = 0; i < k; i++) {
    unsigned h = (unsigned)((a2[i] >> 4) * 2654435761u) & (GSIZE - 1);
    while (g_state[h]) h = (h + 1) & (GSIZE - 1);
    g_state[h] = 1; g_addr[h] = a2[i]; g_size[h] = s2[i];
  }
}

static int g_insert(void *p, size_t n) { /* caller holds the lock */
  if (g_live >= (int)(GSIZE / 4)) return 0;
  if (g_live + g_tombs >= (int)(GSIZE / 2)) g_rebuild();
  unsigned h = (unsigned)(((uintptr_t)p >> 4) * 2654435761u) & (GSIZE - 1);
  while (g_state[h] == 1) h = (h + 1) & (GSIZE - 1);
  if (g_state[h] == 2) g_tombs--;
  g_state[h] = 1; g_addr[h] = (uintptr_t)p; g_size[h] = n;
  g_live++; guarded_total++;
  return 1;
}

static int canary_ok(uintptr_t a, size_t n) {
  const unsigned char *c = (const unsigned char *)a + n;
  for (int i = 0; i < GUARD; i++) if (c[i] != CANARY) return 0;
  return 1;
}

/* p is being released or resized: if guarded, check and forget it; returns 1 if it was guarded */
static int g_release(void *p) {
  if (!g_live || !p) return 0;
  lock();
  unsigned h = g_find((uintptr_t)p);
  if (h == GSIZE) { unlock(); return 0; }
  if (!canary_ok(g_addr[h], g_size[h])) { overflows++; last_overflow = g_addr[h]; }
  g_state[h] = 2; g_tombs++; g_live--;
  unlock();
  return 1;
}

static void g_adopt(void *p, size_t n) {
  memset((char *)p + n, CANARY, GUARD);
  lock();
  g_insert(p, n);
  unlock();
}

void *malloc(size_t n) {
  if (!real_malloc) {
    if (initing) { void *p = boot + boot_off; boot_off += (n + 15) & ~(size_t)15; return p; }
    init();
  }
  int g = guarding && from_kernel(__builtin_return_address(0));
  void *p = real_malloc(g ? n + GUARD : n);
  handed_out(p);
  if (g && p) g_adopt(p, n);
  return p;
}

void *calloc(size_t a, size_t b) {
  if (!real_calloc) {
    if (initing) { void *p = boot + boot_off; boot_off += (a * b + 15) & ~(size_t)15; memset(p, 0, a * b); return p; }
    init();
  }
  int g = guarding && from_kernel(__builtin_return_address(0));
  void *p = g ? real_calloc(a * b + GUARD, 1) : real_calloc(a, b);
  handed_out(p);
  if (g && p) g_adopt(p, a * b);
  return p;
}

/* aligned allocations hand addresses out too (C++ aligned new in LLVM): without these the tracker would take the
 * free of a recycled address for a second free */
int posix_memalign(void **out, size_t align, size_t n) {
  if (!real_posix_memalign) init();
  int r = real_posix_memalign(out, align, n);
  if (r == 0) handed_out(*out);
  return r;
}

void *aligned_alloc(size_t align, size_t n) {
  if (!real_aligned_alloc) init();
  void *p = real_aligned_alloc(align, n);
  handed_out(p);
  return p;
}

void *memalign(size_t align, size_t n) {
  if (!real_memalign) init();
  void *p = real_memalign(align, n);
  handed_out(p);
  return p;
}

void free(void *p) {
  if (!p) return;
  if ((char *)p >= boot && (char *)p < boot + sizeof boot) return;
  if (!real_free) init();
  if (track_free(p)) return;
  g_release(p);
  if (nwatch) {
    lock();
    watch_t *w = find((uintptr_t)p);
    if (w) {
      if (w->state == W_LIVE) {
        w->state = W_FREED;
        w->free_count++;
      } else if (w->state == W_FREED) {
        w->free_count++; /* double free: record, do not forward */
        unlock();
        return;
      }
    }
    unlock();
  }
  real_free(p);
}

void *realloc(void *p, size_t n) {
  if (!real_realloc) init();
  if ((char *)p >= boot && (char *)p < boot + sizeof boot) {
    void *q = real_malloc(n);
    memcpy(q, p, n);
    return q;
  }
  if (p && nwatch) {
    lock();
    watch_t *w = find((uintptr_t)p);
    if (w && w->state == W_LIVE) w->realloc_count++;
    unlock();
  }
  if (p && tracking) { /* realloc of an address that is currently freed is a use after free */
    lock();
    unsigned h = t_slot((uintptr_t)p);
    int freed = h < TSIZE && t_state[h] == 2 && t_addr[h] == (uintptr_t)p;
    if (freed) { double_frees++; last_double_free = (uintptr_t)p; }
    unlock();
    if (freed) return NULL;
  }
  int g = g_release(p) || (guarding && from_kernel(__builtin_return_address(0)));
  void *q = real_realloc(p, g && n ? n + GUARD : n);
  if (g && q && n) g_adopt(q, n);
  if (p && tracking && (n == 0 || (q && q != p))) { /* p was released */
    lock();
    unsigned h = t_slot((uintptr_t)p);
    if (h < TSIZE && t_state[h] == 1 && t_addr[h] == (uintptr_t)p) t_state[h] = 2;
    unlock();
  }
  if (q != p) handed_out(q); else track_alloc(q);
  return q;
}

/* ---- harness API ---- */
/* registers p; returns a handle (every registration gets its own entry, so the history of an
 * address that the allocator reuses stays attached to the object it belonged to) */
int verif_watch(void *p) {
  lock();
  watch_t *old = find((uintptr_t)p);
  if (old && old->state == W_FREED) old->state = W_GONE; /* reused without passing through us */
  watch_t *w = NULL;
  for (int i = 0; i < nwatch; i++)
    if (table[i].state == W_EMPTY) { w = &table[i]; break; }
  if (!w) {
    if (nwatch >= NWATCH) { unlock(); return -1; }
    w = &table[nwatch++];
  }
  w->addr = (uintptr_t)p;
  w->state = W_LIVE;
  w->free_count = 0;
  w->realloc_count = 0;
  int h = (int)(w - table);
  unlock();
  return h;
}
/* returns state | free_count << 8 | realloc_count << 16 */
int verif_query(int h) {
  if (h < 0 || h >= nwatch) return 0;
  lock();
  watch_t *w = &table[h];
  int r = w->state | (w->free_count << 8) | (w->realloc_count << 16);
  unlock();
  return r;
}
void verif_forget(int h) {
  if (h < 0 || h >= nwatch) return;
  lock();
  table[h].state = W_EMPTY;
  unlock();
}
void verif_track(int on) { tracking = on; }
int verif_double_frees(void) { return double_frees; }
uintptr_t verif_last_double_free(void) { return last_double_free; }
void verif_guard(int on) { guarding = on; }
int verif_guarded_total(void) { return guarded_total; }
uintptr_t verif_last_overflow(void) { return last_overflow; }
/* number of guarded blocks found overflowed so far (released ones + the live ones, scanned now) */
int verif_guard_check(void) {
  lock();
  int n = overflows;
  for (unsigned i = 0; i < GSIZE; i++)
    if (g_state[i] == 1 && !canary_ok(g_addr[i], g_size[i])) { n++; last_overflow = g_addr[i]; }
  unlock();
  return n;
}
int verif_present(void) { return 1; }
