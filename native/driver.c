/* NX driver: interprets a case script against natively compiled tensora kernels.
 *
 * Every input array is a separate exact-size malloc (so an out-of-bounds access lands in a
 * sanitizer red zone), inputs are compared with a pristine copy after every call, every array
 * the kernel hands back is read over exactly the extent the structure describes and then freed
 * exactly once (so a short realloc, a dangling pointer or a double ownership trips ASan).
 *
 * Protocol (whitespace separated tokens on stdin):
 *   BEGIN <label>
 *   TENSOR <slot> <order> <is_output> dims... ordering... modes...
 *   LEVEL <slot> <level> <npos> p... <ncrd> c...
 *   VALS <slot> <n> <hex64>...
 *   CALL <kernel_id> <kind> <nparams> slot...
 *   DUMP <slot> <with_vals>
 *   FREEOUT <slot>
 *   END
 */
#include <inttypes.h>
#include <stdint.h>
#include <stdio.h>
#include <stdlib.h>
#include <string.h>

typedef enum { taco_mode_dense, taco_mode_sparse } taco_mode_t;
typedef struct {
  int32_t order;
  int32_t *dimensions;
  int32_t *mode_ordering;
  taco_mode_t *mode_types;
  int32_t ***indices;
  double *vals;
} taco_tensor_t;

struct verif_entry {
  int id;
  int kind; /* 0 evaluate, 1 assemble, 2 compute */
  int nparams;
  void *fn;
};
extern struct verif_entry verif_table[];
extern int verif_table_len;

#define MAXSLOT 8
#define MAXORDER 8

typedef struct {
  int used, is_output, order;
  taco_tensor_t *t;
  /* pristine copies for the immutability check */
  int32_t npos[MAXORDER], ncrd[MAXORDER];
  int32_t *pos_copy[MAXORDER], *crd_copy[MAXORDER];
  int32_t *pos_ptr[MAXORDER], *crd_ptr[MAXORDER];
  int32_t nvals;
  double *vals_copy, *vals_ptr;
  int32_t dims_copy[MAXORDER];
} slot_t;

static slot_t slots[MAXSLOT];

static void die(const char *msg) {
  printf("DRIVER-ERROR %s\n", msg);
  fflush(stdout);
  exit(3);
}

static long rd(void) {
  long v;
  if (scanf("%ld", &v) != 1) die("expected integer");
  return v;
}

static void free_slot(slot_t *s) {
  if (!s->used) return;
  taco_tensor_t *t = s->t;
  for (int l = 0; l < s->order; l++) {
    if (!s->is_output) {
      free(s->pos_ptr[l]);
      free(s->crd_ptr[l]);
    }
    free(s->pos_copy[l]);
    free(s->crd_copy[l]);
    free(t->indices[l]);
  }
  if (!s->is_output) free(s->vals_ptr);
  free(s->vals_copy);
  free(t->indices);
  free(t->dimensions);
  free(t->mode_ordering);
  free(t->mode_types);
  free(t);
  memset(s, 0, sizeof *s);
}

static void reset_all(void) {
  for (int i = 0; i < MAXSLOT; i++) free_slot(&slots[i]);
}

static void cmd_tensor(void) {
  int si = (int)rd();
  if (si < 0 || si >= MAXSLOT) die("slot");
  slot_t *s = &slots[si];
  free_slot(s);
  s->used = 1;
  s->order = (int)rd();
  s->is_output = (int)rd();
  if (s->order > MAXORDER) die("order");
  taco_tensor_t *t = malloc(sizeof *t);
  t->order = s->order;
  t->dimensions = malloc(sizeof(int32_t) * (size_t)s->order);
  t->mode_ordering = malloc(sizeof(int32_t) * (size_t)s->order);
  t->mode_types = malloc(sizeof(taco_mode_t) * (size_t)s->order);
  t->indices = malloc(sizeof(int32_t **) * (size_t)s->order);
  for (int i = 0; i < s->order; i++) {
    t->dimensions[i] = (int32_t)rd();
    s->dims_copy[i] = t->dimensions[i];
  }
  for (int i = 0; i < s->order; i++) t->mode_ordering[i] = (int32_t)rd();
  for (int i = 0; i < s->order; i++) {
    int m = (int)rd();
    t->mode_types[i] = m ? taco_mode_sparse : taco_mode_dense;
    if (m) {
      t->indices[i] = malloc(sizeof(int32_t *) * 2);
      t->indices[i][0] = NULL;
      t->indices[i][1] = NULL;
    } else {
      t->indices[i] = NULL;
    }
  }
  t->vals = NULL;
  s->t = t;
}

static void cmd_level(void) {
  int si = (int)rd();
  slot_t *s = &slots[si];
  if (!s->used) die("level on unused slot");
  int l = (int)rd();
  int np = (int)rd();
  int32_t *pos = malloc(sizeof(int32_t) * (size_t)np);
  int32_t *pc = malloc(sizeof(int32_t) * (size_t)np);
  for (int i = 0; i < np; i++) pc[i] = pos[i] = (int32_t)rd();
  int nc = (int)rd();
  int32_t *crd = malloc(sizeof(int32_t) * (size_t)nc);
  int32_t *cc = malloc(sizeof(int32_t) * (size_t)nc);
  for (int i = 0; i < nc; i++) cc[i] = crd[i] = (int32_t)rd();
  free(s->pos_ptr[l]);
  free(s->crd_ptr[l]);
  free(s->pos_copy[l]);
  free(s->crd_copy[l]);
  s->pos_ptr[l] = pos;
  s->crd_ptr[l] = crd;
  s->pos_copy[l] = pc;
  s->crd_copy[l] = cc;
  s->npos[l] = np;
  s->ncrd[l] = nc;
  s->t->indices[l][0] = pos;
  s->t->indices[l][1] = crd;
}

static void cmd_vals(void) {
  int si = (int)rd();
  slot_t *s = &slots[si];
  if (!s->used) die("vals on unused slot");
  int n = (int)rd();
  double *v = malloc(sizeof(double) * (size_t)n);
  double *vc = malloc(sizeof(double) * (size_t)n);
  for (int i = 0; i < n; i++) {
    uint64_t bits;
    if (scanf("%" SCNx64, &bits) != 1) die("expected hex64");
    memcpy(&v[i], &bits, 8);
    vc[i] = v[i];
  }
  free(s->vals_ptr);
  free(s->vals_copy);
  s->vals_ptr = v;
  s->vals_copy = vc;
  s->nvals = n;
  s->t->vals = v;
}

typedef int32_t (*f1)(taco_tensor_t *);
typedef int32_t (*f2)(taco_tensor_t *, taco_tensor_t *);
typedef int32_t (*f3)(taco_tensor_t *, taco_tensor_t *, taco_tensor_t *);
typedef int32_t (*f4)(taco_tensor_t *, taco_tensor_t *, taco_tensor_t *, taco_tensor_t *);
typedef int32_t (*f5)(taco_tensor_t *, taco_tensor_t *, taco_tensor_t *, taco_tensor_t *, taco_tensor_t *);
typedef int32_t (*f6)(taco_tensor_t *, taco_tensor_t *, taco_tensor_t *, taco_tensor_t *, taco_tensor_t *,
                      taco_tensor_t *);

static void check_inputs(int n, int *arg) {
  for (int a = 0; a < n; a++) {
    slot_t *s = &slots[arg[a]];
    taco_tensor_t *t = s->t;
    int bad = 0;
    if (t->order != s->order) bad = 1;
    for (int i = 0; i < s->order && !bad; i++)
      if (t->dimensions[i] != s->dims_copy[i]) bad = 1;
    if (!s->is_output) {
      for (int l = 0; l < s->order && !bad; l++) {
        if (t->mode_types[l] == taco_mode_sparse) {
          if (t->indices[l][0] != s->pos_ptr[l] || t->indices[l][1] != s->crd_ptr[l]) bad = 1;
          else if (memcmp(s->pos_ptr[l], s->pos_copy[l], sizeof(int32_t) * (size_t)s->npos[l])) bad = 1;
          else if (memcmp(s->crd_ptr[l], s->crd_copy[l], sizeof(int32_t) * (size_t)s->ncrd[l])) bad = 1;
        }
      }
      if (!bad && t->vals != s->vals_ptr) bad = 1;
      if (!bad && memcmp(s->vals_ptr, s->vals_copy, sizeof(double) * (size_t)s->nvals)) bad = 1;
    }
    if (bad) printf("INPUT-MODIFIED %d\n", arg[a]);
  }
}

static void cmd_call(void) {
  int id = (int)rd(), kind = (int)rd(), n = (int)rd();
  int arg[6];
  taco_tensor_t *p[6];
  if (n < 1 || n > 6) die("nparams");
  for (int i = 0; i < n; i++) {
    arg[i] = (int)rd();
    if (!slots[arg[i]].used) die("call with unused slot");
    p[i] = slots[arg[i]].t;
  }
  void *fn = NULL;
  for (int i = 0; i < verif_table_len; i++)
    if (verif_table[i].id == id && verif_table[i].kind == kind) {
      if (verif_table[i].nparams != n) die("nparams mismatch");
      fn = verif_table[i].fn;
    }
  if (!fn) die("unknown kernel");
  int32_t r = 0;
  switch (n) {
    case 1: r = ((f1)fn)(p[0]); break;
    case 2: r = ((f2)fn)(p[0], p[1]); break;
    case 3: r = ((f3)fn)(p[0], p[1], p[2]); break;
    case 4: r = ((f4)fn)(p[0], p[1], p[2], p[3]); break;
    case 5: r = ((f5)fn)(p[0], p[1], p[2], p[3], p[4]); break;
    case 6: r = ((f6)fn)(p[0], p[1], p[2], p[3], p[4], p[5]); break;
  }
  printf("RET %d\n", (int)r);
  check_inputs(n, arg);
}

static void cmd_dump(void) {
  int si = (int)rd();
  int with_vals = (int)rd();
  slot_t *s = &slots[si];
  taco_tensor_t *t = s->t;
  long npos = 1;
  for (int l = 0; l < s->order; l++) {
    if (t->mode_types[l] == taco_mode_dense) {
      npos *= t->dimensions[t->mode_ordering[l]];
      continue;
    }
    int32_t *pos = t->indices[l][0], *crd = t->indices[l][1];
    if (!pos) {
      printf("POS %d NULL\n", l);
      return;
    }
    printf("POS %d %ld", l, npos + 1);
    for (long i = 0; i <= npos; i++) printf(" %d", (int)pos[i]);
    printf("\n");
    long n = pos[npos];
    printf("CRD %d %ld", l, n);
    if (n > 0 && !crd) {
      printf(" NULL\n");
      return;
    }
    for (long i = 0; i < n; i++) printf(" %d", (int)crd[i]);
    printf("\n");
    npos = n;
  }
  if (with_vals) {
    printf("VALS %ld", npos);
    if (npos > 0 && !t->vals) {
      printf(" NULL\n");
      return;
    }
    for (long i = 0; i < npos; i++) {
      uint64_t bits;
      memcpy(&bits, &t->vals[i], 8);
      printf(" %016" PRIx64, bits);
    }
    printf("\n");
  }
}

static void cmd_freeout(void) {
  int si = (int)rd();
  slot_t *s = &slots[si];
  taco_tensor_t *t = s->t;
  for (int l = 0; l < s->order; l++) {
    if (t->mode_types[l] == taco_mode_sparse) {
      free(t->indices[l][0]);
      free(t->indices[l][1]);
      t->indices[l][0] = t->indices[l][1] = NULL;
    }
  }
  free(t->vals);
  t->vals = NULL;
  printf("FREED\n");
}

int main(void) {
  char cmd[64];
  setvbuf(stdout, NULL, _IOFBF, 1 << 16);
  while (scanf("%63s", cmd) == 1) {
    if (!strcmp(cmd, "BEGIN")) {
      char label[256];
      if (scanf("%255s", label) != 1) die("label");
      reset_all();
      printf("BEGIN %s\n", label);
      fflush(stdout);
    } else if (!strcmp(cmd, "TENSOR")) cmd_tensor();
    else if (!strcmp(cmd, "LEVEL")) cmd_level();
    else if (!strcmp(cmd, "VALS")) cmd_vals();
    else if (!strcmp(cmd, "CALL")) cmd_call();
    else if (!strcmp(cmd, "DUMP")) cmd_dump();
    else if (!strcmp(cmd, "FREEOUT")) cmd_freeout();
    else if (!strcmp(cmd, "END")) {
      printf("END\n");
      fflush(stdout);
    } else die("unknown command");
  }
  reset_all();
  printf("DONE\n");
  return 0;
}
